//! Kani proof harnesses for the IEEE-754 facts the Verus contracts (contracts/quantity.vx, assertp.vx)
//! assume about `Number`. Included into numbat/src/number.rs by the `cfg(kani)` hook, so every harness
//! exercises the REAL `impl ... for Number`. All harnesses are loop-free over `kani::any::<f64>()`:
//! a pass is a complete proof over all 2^64 (or 2^128) bit patterns, not a bounded check.
//!
//! `same(x, y)` = numerically equal (IEEE `==`, so +0 and -0 are the same) or both NaN.
//! Bit-identity is too strong for subtraction: `a - a` is +0 while `-(a - a)` is -0.
use super::Number;
use std::cmp::Ordering;

fn same(x: f64, y: f64) -> bool {
    x == y || (x.is_nan() && y.is_nan())
}

fn any_number() -> Number {
    Number::from_f64(kani::any())
}

/// axiom_n_eq_sym: `a == b` equals `b == a` on the derived PartialEq
#[kani::proof]
fn ieee_eq_symmetric() {
    let (a, b) = (any_number(), any_number());
    assert!((a == b) == (b == a));
    assert!((a != b) == !(a == b));
}

/// axiom_n_cmp_antisym: partial_cmp(a,b) is the reverse of partial_cmp(b,a)
#[kani::proof]
fn ieee_cmp_antisymmetric() {
    let (a, b) = (any_number(), any_number());
    assert!(a.partial_cmp(&b) == b.partial_cmp(&a).map(Ordering::reverse));
}

/// axiom_n_cmp_some_iff_not_nan
#[kani::proof]
fn ieee_cmp_some_iff_not_nan() {
    let (a, b) = (any_number(), any_number());
    assert!(a.partial_cmp(&b).is_some() == (!a.to_f64().is_nan() && !b.to_f64().is_nan()));
}

/// axiom_n_cmp_equal_iff_eq + the derived operators agree with partial_cmp (what the VM arms rely on)
#[kani::proof]
fn ieee_cmp_equal_iff_eq() {
    let (a, b) = (any_number(), any_number());
    assert!((a.partial_cmp(&b) == Some(Ordering::Equal)) == (a == b));
    assert!((a < b) == (a.partial_cmp(&b) == Some(Ordering::Less)));
    assert!((a <= b) == matches!(a.partial_cmp(&b), Some(Ordering::Less | Ordering::Equal)));
}

/// axiom_n_add_comm
#[kani::proof]
fn ieee_add_commutes() {
    let (a, b) = (any_number(), any_number());
    assert!(same((a + b).to_f64(), (b + a).to_f64()));
}

/// axiom_n_sub_anti: a - b is the negation of b - a
#[kani::proof]
fn ieee_sub_anticommutes() {
    let (a, b) = (any_number(), any_number());
    assert!(same((a - b).to_f64(), (-(b - a)).to_f64()));
}

/// axiom_n_neg_neg: negation is an involution, bit for bit
#[kani::proof]
fn ieee_neg_involutive() {
    let a = any_number();
    assert!((-(-a)).to_f64().to_bits() == a.to_f64().to_bits());
}

/// from_f64 / to_f64 are inverse bit for bit (Number is a transparent wrapper)
#[kani::proof]
fn ieee_from_to_roundtrip() {
    let x: f64 = kani::any();
    assert!(Number::from_f64(x).to_f64().to_bits() == x.to_bits());
}

/// abs is non-negative or NaN, and |x| == |-x| (used by the assert_eq(a, b, eps) contract)
#[kani::proof]
fn ieee_abs() {
    let a = any_number();
    let r = a.abs().to_f64();
    assert!(r.is_nan() || r >= 0.0);
    assert!(same(r, (-a).abs().to_f64()));
}

/// primitive f64 `<=` used by Unit::smaller_unit: total on non-NaN, and antisymmetric up to ==
#[kani::proof]
fn ieee_le_total_on_non_nan() {
    let (x, y): (f64, f64) = (kani::any(), kani::any());
    if !x.is_nan() && !y.is_nan() {
        assert!(x <= y || y <= x);
        if x <= y && y <= x {
            assert!(x == y);
        }
    }
}

/// supporting fact for C08/C14 (not used by a contract): the integer branch of pretty_print
#[kani::proof]
fn ieee_integer_guard() {
    let a = any_number();
    let x = a.to_f64();
    if a.is_integer() && x.abs() < 9007199254740992.0 {
        let i = x as i64;
        assert!(i as f64 == x);
    }
}

/// C09 encoding layer: the std contracts assumed for u16::{to,from}_{le,be}_bytes in contracts/vmbytes.vx,
/// over all 65536 values (complete)
#[kani::proof]
fn vm_le_bytes() {
    let d: u16 = kani::any();
    let lo = (d & 0xff) as u8;
    let hi = (d >> 8) as u8;
    assert!(d.to_le_bytes() == [lo, hi]);
    assert!(d.to_be_bytes() == [hi, lo]);
    let (b0, b1): (u8, u8) = (kani::any(), kani::any());
    assert!(u16::from_le_bytes([b0, b1]) == (b0 as u16) | ((b1 as u16) << 8));
    assert!(u16::from_be_bytes([b0, b1]) == (b1 as u16) | ((b0 as u16) << 8));
}

/// C02 (unit `typecheck`): relations between the f64 classification predicates that the guard of the polymorphic-literal
/// arm of the type checker is written with - `is_zero` is num_traits' (`x == 0.0`, both signed zeros)
#[kani::proof]
fn ieee_classification() {
    use num_traits::Zero;
    let x = any_number().to_f64();
    assert!(x.is_zero() == (x == 0.0));
    assert!(x.is_finite() == (!x.is_infinite() && !x.is_nan()));
    if x.is_normal() {
        assert!(!x.is_zero() && !x.is_infinite() && !x.is_nan() && !x.is_subnormal());
    }
    if x.is_subnormal() {
        assert!(!x.is_zero() && !x.is_infinite() && !x.is_nan() && !x.is_normal());
    }
    assert!(x.is_zero() || x.is_infinite() || x.is_nan() || x.is_normal() || x.is_subnormal());
}

/// C10 (unit `tokchars`): the axiom about `unicode_ident` that the character-class contracts use - none of the documented operator
/// characters is XID_Start, and none but U+00B7 MIDDLE DOT is XID_Continue. Concrete calls into the crate's real tables.
#[kani::proof]
#[kani::unwind(40)]
fn unicode_operator_chars_not_xid() {
    let ops = [
        '\u{2264}', '\u{2265}', '\u{2260}', '\u{2A75}', '\u{2192}', '\u{279E}', '\u{2212}',
        '\u{00D7}', '\u{00F7}', '\u{00B7}', '\u{22C5}', '+', '-', '*', '/', '^', '<', '>', '=',
        '!', '|', '&', '(', ')', '[', ']', '{', '}', ',', ':', ';', '?', ' ',
    ];
    let mut i = 0;
    while i < ops.len() {
        let c = ops[i];
        assert!(!unicode_ident::is_xid_start(c));
        assert!(c == '\u{00B7}' || !unicode_ident::is_xid_continue(c));
        i += 1;
    }
    assert!(unicode_ident::is_xid_continue('\u{00B7}'));
}

/// axiom_f_lt_asymmetric (contracts/quantity.vx): primitive f64 `<` never holds in both directions
#[kani::proof]
fn ieee_lt_asymmetric() {
    let (x, y): (f64, f64) = (kani::any(), kani::any());
    assert!(!(x < y && y < x));
}

/// unit `toknum`: the assumed specification of `char::is_ascii_digit` (all 0x110000 - 0x800 scalar values; loop-free, complete)
#[kani::proof]
fn char_is_ascii_digit_is_0_to_9() {
    let c: char = kani::any();
    assert!(c.is_ascii_digit() == ('0' <= c && c <= '9'));
}

/// unit `toknum`: the assumed specifications of `char::is_ascii`, `is_ascii_alphanumeric`, `is_ascii_alphabetic` (every char)
#[kani::proof]
fn char_ascii_classes() {
    let c: char = kani::any();
    let alpha = ('a' <= c && c <= 'z') || ('A' <= c && c <= 'Z');
    assert!(c.is_ascii() == ((c as u32) < 128));
    assert!(c.is_ascii_alphabetic() == alpha);
    assert!(c.is_ascii_alphanumeric() == (alpha || ('0' <= c && c <= '9')));
}
