use vstd::prelude::*;
use std::collections::VecDeque;

macro_rules! arg {
    ($args:ident) => {
        $args.pop_front().unwrap().value
    };
}
macro_rules! quantity_arg {
    ($args:ident) => {
        arg!($args).unsafe_as_quantity()
    };
}

verus! {

#[verifier::external_body]
pub struct Quantity { _p: u8 }
#[verifier::external_body]
pub struct Unit { _p: u8 }
#[verifier::external_body]
pub struct ExecutionContext { _p: u8 }
#[derive(Clone, Copy)]
pub struct Span { a: u32 }
pub enum QuantityError { IncompatibleUnits, NonRationalExponent }

pub enum Value { Quantity(Quantity), Boolean(bool), Other(u8) }

pub struct Arg { pub value: Value, pub span: Span }
pub type Args = VecDeque<Arg>;

pub struct AssertEq3Error {
    pub span_lhs: Span, pub lhs_original: Quantity, pub lhs_converted: Quantity,
    pub span_rhs: Span, pub rhs_original: Quantity, pub rhs_converted: Quantity,
    pub eps: Quantity, pub diff_abs: Quantity,
}
pub enum RuntimeErrorKind { AssertFailed(Span), AssertEq3Failed(AssertEq3Error), QuantityError(QuantityError) }
pub type ControlFlow = std::ops::ControlFlow<RuntimeErrorKind>;

pub uninterp spec fn q_le(a: Quantity, b: Quantity) -> bool;
pub uninterp spec fn q_abs(a: Quantity) -> Quantity;
pub uninterp spec fn q_sub(a: Quantity, b: Quantity) -> Result<Quantity, QuantityError>;
pub uninterp spec fn q_conv(a: Quantity, u: Unit) -> Result<Quantity, QuantityError>;
pub uninterp spec fn q_unit(a: Quantity) -> Unit;

impl Quantity {
    #[verifier::external_body]
    pub fn unit(&self) -> (r: &Unit) ensures *r == q_unit(*self) { unimplemented!() }
    #[verifier::external_body]
    pub fn convert_to(&self, u: &Unit) -> (r: Result<Quantity, QuantityError>) ensures r == q_conv(*self, *u) { unimplemented!() }
    #[verifier::external_body]
    pub fn abs(self) -> (r: Quantity) ensures r == q_abs(self) { unimplemented!() }
    #[verifier::external_body]
    pub fn sub_ref(&self, o: &Quantity) -> (r: Result<Quantity, QuantityError>) ensures r == q_sub(*self, *o) { unimplemented!() }
    #[verifier::external_body]
    pub fn le(&self, o: &Quantity) -> (r: bool) ensures r == q_le(*self, *o) { unimplemented!() }
}
impl Value {
    pub fn unsafe_as_bool(self) -> (r: bool)
        requires self is Boolean, ensures self == Value::Boolean(r)
    { if let Value::Boolean(b) = self { b } else { vstd::pervasive::unreached() } }
    pub fn unsafe_as_quantity(self) -> (r: Quantity)
        requires self is Quantity, ensures self == Value::Quantity(r)
    { if let Value::Quantity(q) = self { q } else { vstd::pervasive::unreached() } }
}

fn assert(_p0: &mut ExecutionContext, mut args: Args) -> (r: ControlFlow)
    requires args@.len() == 1, args@[0].value is Boolean,
    ensures (r is Continue) <==> args@[0].value == Value::Boolean(true),
{
    let arg = args.pop_front().unwrap();
    if arg.value.unsafe_as_bool() {
        ControlFlow::Continue(())
    } else {
        ControlFlow::Break(RuntimeErrorKind::AssertFailed(arg.span))
    }
}

fn assert_eq3(_p0: &mut ExecutionContext, mut args: Args) -> (r: ControlFlow)
    requires args@.len() == 3, args@[0].value is Quantity, args@[1].value is Quantity, args@[2].value is Quantity,
{
    let lhs_arg = args.pop_front().unwrap();
    let rhs_arg = args.pop_front().unwrap();
    {
        let lhs_original = lhs_arg.value.unsafe_as_quantity();
        let rhs_original = rhs_arg.value.unsafe_as_quantity();
        let eps = quantity_arg!(args);

        let lhs_converted = lhs_original.convert_to(eps.unit());
        let lhs_converted = match lhs_converted {
            Err(e) => return ControlFlow::Break(RuntimeErrorKind::QuantityError(e)),
            Ok(q) => q,
        };
        let rhs_converted = rhs_original.convert_to(eps.unit());
        let rhs_converted = match rhs_converted {
            Err(e) => return ControlFlow::Break(RuntimeErrorKind::QuantityError(e)),
            Ok(q) => q,
        };

        let result = lhs_converted.sub_ref(&rhs_converted);

        match result {
            Err(e) => ControlFlow::Break(RuntimeErrorKind::QuantityError(e)),
            Ok(diff) => {
                let diff_abs = diff.abs();
                if diff_abs.le(&eps) {
                    ControlFlow::Continue(())
                } else {
                    ControlFlow::Break(RuntimeErrorKind::AssertEq3Failed(AssertEq3Error {
                        span_lhs: lhs_arg.span,
                        lhs_original,
                        lhs_converted,
                        span_rhs: rhs_arg.span,
                        rhs_original,
                        rhs_converted,
                        eps,
                        diff_abs,
                    }))
                }
            }
        }
    }
}

}
fn main(){}
