use vstd::prelude::*;

verus! {

#[verifier::external_body]
pub struct Unit { _p: u8 }

#[derive(Clone, Copy)]
#[verifier::external_body]
pub struct Number(pub f64);

pub enum QuantityError { IncompatibleUnits, NonRationalExponent }
pub type Result<T> = std::result::Result<T, QuantityError>;

pub struct Quantity {
    value: Number,
    unit: Unit,
    can_simplify: bool,
    conversion_target: Option<Box<Quantity>>,
}

pub uninterp spec fn n_add(a: Number, b: Number) -> Number;
pub uninterp spec fn n_is_zero(a: Number) -> bool;
pub uninterp spec fn u_eq(a: Unit, b: Unit) -> bool;
pub uninterp spec fn u_factor_le(a: Unit, b: Unit) -> bool;
pub uninterp spec fn conv(v: Number, from: Unit, to: Unit) -> Option<Number>;

impl Unit {
    #[verifier::external_body]
    pub fn clone(&self) -> (r: Unit) ensures r == *self { unimplemented!() }
    #[verifier::external_body]
    pub fn smaller_unit<'a>(&'a self, other: &'a Self) -> (r: &'a Self)
        ensures *r == (if u_factor_le(*self, *other) { *self } else { *other })
    { unimplemented!() }
}

impl vstd::std_specs::ops::AddSpecImpl<Number> for Number {
    open spec fn obeys_add_spec() -> bool { true }
    open spec fn add_req(self, rhs: Number) -> bool { true }
    open spec fn add_spec(self, rhs: Number) -> Number { n_add(self, rhs) }
}
impl core::ops::Add for Number {
    type Output = Number;
    #[verifier::external_body]
    fn add(self, rhs: Number) -> Number { unimplemented!() }
}
impl vstd::std_specs::cmp::PartialEqSpecImpl<Unit> for Unit {
    open spec fn obeys_eq_spec() -> bool { true }
    open spec fn eq_spec(&self, other: &Unit) -> bool { u_eq(*self, *other) }
}
impl PartialEq for Unit {
    #[verifier::external_body]
    fn eq(&self, other: &Unit) -> bool { unimplemented!() }
}
#[verifier::external_body]
pub fn number_add(a: Number, b: Number) -> (r: Number) ensures r == n_add(a, b) { unimplemented!() }

impl Quantity {
    pub closed spec fn val(&self) -> Number { self.value }
    pub closed spec fn un(&self) -> Unit { self.unit }

    pub fn new(value: Number, unit: Unit) -> (r: Self)
        ensures r.val() == value, r.un() == unit
    {
        Quantity {
            value,
            unit,
            can_simplify: true,
            conversion_target: None,
        }
    }
    #[verifier::external_body]
    pub fn is_zero(&self) -> (r: bool) ensures r == n_is_zero(self.val()) { unimplemented!() }
    #[verifier::external_body]
    pub fn clone(&self) -> (r: Self) ensures r == *self { unimplemented!() }
    #[verifier::external_body]
    pub fn convert_to(&self, target_unit: &Unit) -> (r: Result<Quantity>)
        ensures match r { Ok(q) => q.un() == *target_unit && conv(self.val(), self.un(), *target_unit) == Some(q.val()),
                          Err(_) => conv(self.val(), self.un(), *target_unit).is_none() }
    { unimplemented!() }
}

pub open spec fn add_spec(a: Quantity, b: Quantity) -> Option<(Number, Unit)> {
    if n_is_zero(a.val()) { Some((b.val(), b.un())) }
    else if n_is_zero(b.val()) { Some((a.val(), a.un())) }
    else if u_eq(a.un(), b.un()) { Some((n_add(a.val(), b.val()), a.un())) }
    else {
        let u = if u_factor_le(a.un(), b.un()) { a.un() } else { b.un() };
        match (conv(a.val(), a.un(), u), conv(b.val(), b.un(), u)) {
            (Some(x), Some(y)) => Some((n_add(x, y), u)),
            _ => None,
        }
    }
}

impl<'a> vstd::std_specs::ops::AddSpecImpl<&'a Quantity> for &'a Quantity {
    open spec fn obeys_add_spec() -> bool { false }
    open spec fn add_req(self, rhs: &'a Quantity) -> bool { true }
    open spec fn add_spec(self, rhs: &'a Quantity) -> Result<Quantity> { arbitrary() }
}
impl std::ops::Add for &Quantity {
    type Output = Result<Quantity>;

    fn add(self, rhs: Self) -> (r: Self::Output)
        ensures match r { Ok(q) => add_spec(*self, *rhs) == Some((q.val(), q.un())), Err(_) => add_spec(*self, *rhs).is_none() }
    {
        if self.is_zero() {
            Ok(rhs.clone())
        } else if rhs.is_zero() {
            Ok(self.clone())
        } else if self.unit == rhs.unit {
            Ok(Quantity::new(self.value + rhs.value, self.unit.clone()))
        } else {
            // Use the smaller unit to ensure commutativity: a + b == b + a
            let result_unit = self.unit.smaller_unit(&rhs.unit);
            Ok(Quantity::new(
                self.convert_to(result_unit)?.value + rhs.convert_to(result_unit)?.value,
                result_unit.clone(),
            ))
        }
    }
}

} // verus!
fn main() {}
