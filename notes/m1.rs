use vstd::prelude::*;
verus! {
pub struct P { a: u64, b: u64 }

fn get_a(p: &mut P) -> (r: &mut u64)
    ensures *r == old(p).a,
            final(p).a == *final(r),
            final(p).b == old(p).b,
{
    &mut p.a
}

fn use_it(p: &mut P)
    requires old(p).a < 100,
    ensures final(p).a == old(p).a + 1, final(p).b == old(p).b,
{
    let r = get_a(p);
    *r += 1;
}

fn two(p: &mut P) -> (r: (&mut u64, &mut u64))
    ensures *r.0 == old(p).a, *r.1 == old(p).b,
            final(p).a == *final(r.0),
            final(p).b == *final(r.1),
{
    (&mut p.a, &mut p.b)
}
fn use_two(p: &mut P)
    requires old(p).a < 100,
    ensures final(p).a == old(p).a + 1, final(p).b == 7,
{
    let (x, y) = two(p);
    *x += 1;
    *y = 7;
}
}
fn main(){}
