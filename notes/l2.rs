#![feature(allocator_api, clone_to_uninit)]
use vstd::prelude::*;
use std::{collections::VecDeque, sync::Arc};

verus! {

pub struct NumbatList<T> {
    alloc: Arc<VecDeque<T>>,
    view: Option<(usize, usize)>,
}

pub assume_specification<T: ?Sized, A: core::alloc::Allocator>[ Arc::<T, A>::strong_count ](this: &Arc<T, A>) -> (n: usize)
    ensures n >= 1;

pub assume_specification<T: ?Sized + core::clone::CloneToUninit, A: core::alloc::Allocator + Clone>[ Arc::<T, A>::make_mut ](this: &mut Arc<T, A>) -> (r: &mut T)
    ensures true;

impl<T: Clone> NumbatList<T> {
    pub closed spec fn wf(&self) -> bool {
        match self.view {
            Some((s, e)) => s <= e && e == self.alloc@.len(),
            None => true,
        }
    }
    pub closed spec fn seq(&self) -> Seq<T> {
        match self.view {
            Some((s, e)) => self.alloc@.subrange(s as int, e as int),
            None => self.alloc@,
        }
    }

    fn make_mut(&mut self) -> (&mut Option<(usize, usize)>, &mut VecDeque<T>) {
        if Arc::strong_count(&self.alloc) != 1 {
            // If someone else is using the list we must clone it
            //self.alloc = Arc::new(self.iter().cloned().collect());
            self.view = None;
        }
        // With our usage, this should never allocate since we know we're the only
        // one holding a reference to this `Arc` and we don't use weak references.
        (&mut self.view, Arc::make_mut(&mut self.alloc))
    }

    pub fn push_front(&mut self, element: T) {
        let (view, inner) = self.make_mut();
        if let Some((start, end)) = view {
            if *start == 0 {
                inner.push_front(element);
                *end += 1;
            } else {
                *start -= 1;
                inner[*start] = element;
            }
        } else {
            inner.push_front(element);
        }
    }
}

} // verus!
fn main() {}
