use vstd::prelude::*;

verus! {

// ---- abstract callee types (contracts only) ----
#[verifier::external_body]
pub struct Transformer { _p: u8 }
#[verifier::external_body]
pub struct TypeChecker { _p: u8 }
#[verifier::external_body]
pub struct BytecodeInterpreter { _p: u8 }
#[verifier::external_body]
pub struct Resolver { _p: u8 }
#[verifier::external_body]
pub struct AstStatements<'a> { _p: &'a str }
#[verifier::external_body]
pub struct TypedStatements<'a> { _p: &'a str }
#[verifier::external_body]
pub struct InterpreterResult { _p: u8 }
#[verifier::external_body]
pub struct InterpreterSettings { _p: u8 }
#[verifier::external_body]
pub struct CodeSource { _p: u8 }
impl CodeSource {
    #[verifier::external_body]
    pub fn clone(&self) -> (r: Self) { unimplemented!() }
}
#[verifier::external_body]
pub struct ResolverError { _p: u8 }
#[verifier::external_body]
pub struct NameResolutionError { _p: u8 }
#[verifier::external_body]
pub struct TypeCheckError { _p: u8 }
#[verifier::external_body]
pub struct RuntimeError { _p: u8 }

pub enum NumbatError {
    ResolverError(ResolverError),
    NameResolutionError(NameResolutionError),
    TypeCheckError(TypeCheckError),
    RuntimeError(RuntimeError),
}

type Result<T> = std::result::Result<T, Box<NumbatError>>;

impl Transformer {
    pub uninterp spec fn view(&self) -> int;
    #[verifier::external_body]
    pub fn clone(&self) -> (r: Self) ensures r@ == self@ { unimplemented!() }
    #[verifier::external_body]
    pub fn transform<'a>(&mut self, s: AstStatements<'a>) -> (r: std::result::Result<AstStatements<'a>, NameResolutionError>) { unimplemented!() }
}
impl TypeChecker {
    pub uninterp spec fn view(&self) -> int;
    #[verifier::external_body]
    pub fn clone(&self) -> (r: Self) ensures r@ == self@ { unimplemented!() }
    #[verifier::external_body]
    pub fn check<'a>(&mut self, s: &AstStatements<'a>) -> (r: std::result::Result<TypedStatements<'a>, Box<TypeCheckError>>) { unimplemented!() }
}
impl BytecodeInterpreter {
    pub uninterp spec fn view(&self) -> int;
    #[verifier::external_body]
    pub fn clone(&self) -> (r: Self) ensures r@ == self@ { unimplemented!() }
    #[verifier::external_body]
    pub fn interpret_statements<'a>(&mut self, settings: &mut InterpreterSettings, s: &TypedStatements<'a>, t: &Transformer, tc: &TypeChecker) -> (r: std::result::Result<InterpreterResult, Box<RuntimeError>>) { unimplemented!() }
}
impl Resolver {
    pub uninterp spec fn view(&self) -> int;
    #[verifier::external_body]
    pub fn resolve<'a>(&mut self, code: &'a str, cs: CodeSource) -> (r: std::result::Result<AstStatements<'a>, ResolverError>)
      { unimplemented!() }
}

pub struct Context {
    prefix_transformer: Transformer,
    typechecker: TypeChecker,
    interpreter: BytecodeInterpreter,
    resolver: Resolver,
    load_currency_module_on_demand: bool,
    terminal_width: Option<usize>,
}

impl Context {
    pub closed spec fn session(&self) -> (int, int, int, int) {
        (self.prefix_transformer@, self.typechecker@, self.interpreter@, self.resolver@)
    }

    pub fn interpret_with_settings<'a>(
        &mut self,
        settings: &mut InterpreterSettings,
        code: &'a str,
        code_source: CodeSource,
    ) -> (res: Result<(TypedStatements<'a>, InterpreterResult)>)
        ensures res.is_err() ==> final(self).session() == old(self).session(),
    {
        let statements = self
            .resolver
            .resolve(code, code_source.clone())
            .map_err(|e| NumbatError::ResolverError(e))?;

        let prefix_transformer_old = self.prefix_transformer.clone();

        let result = self
            .prefix_transformer
            .transform(statements)
            .map_err(|e| NumbatError::NameResolutionError(e));

        if result.is_err() {
            self.prefix_transformer = prefix_transformer_old.clone();
        }

        let transformed_statements = result?;

        let typechecker_old = self.typechecker.clone();

        let result = self
            .typechecker
            .check(&transformed_statements)
            .map_err(|err| NumbatError::TypeCheckError(*err));

        if result.is_err() {
            self.prefix_transformer = prefix_transformer_old.clone();
            self.typechecker = typechecker_old.clone();
        }

        let typed_statements = result?;

        let interpreter_old = self.interpreter.clone();

        let result = self.interpreter.interpret_statements(
            settings,
            &typed_statements,
            &self.prefix_transformer,
            &self.typechecker,
        );

        if result.is_err() {
            self.prefix_transformer = prefix_transformer_old;
            self.typechecker = typechecker_old;
            self.interpreter = interpreter_old;
        }

        let result = result.map_err(|err| NumbatError::RuntimeError(*err))?;

        Ok((typed_statements, result))
    }
}

} // verus!
fn main() {}
