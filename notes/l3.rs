#![feature(allocator_api, clone_to_uninit)]
#![allow(unused_imports)]
use vstd::prelude::*;
use std::{collections::VecDeque, sync::Arc};

verus! {

pub struct NumbatList<T> {
    alloc: Arc<VecDeque<T>>,
    view: Option<(usize, usize)>,
}

// ---- assumed contracts on std (trusted base) ----
pub uninterp spec fn arc_unique<T>(a: Arc<T>) -> bool;

pub assume_specification<T: ?Sized, A: core::alloc::Allocator>[ Arc::<T, A>::strong_count ](this: &Arc<T, A>) -> (n: usize)
    ensures n >= 1;

#[verifier::external_body]
pub fn arc_make_mut<T: Clone>(this: &mut Arc<VecDeque<T>>) -> (r: &mut VecDeque<T>)
    ensures *r == **old(this), *final(r) == **final(this)
{ Arc::make_mut(this) }

pub assume_specification<T, A: core::alloc::Allocator>[ Arc::<T, A>::try_unwrap ](this: Arc<T, A>) -> (r: Result<T, Arc<T, A>>)
    ensures match r { Ok(v) => v == *this, Err(a) => a == this };

pub assume_specification<T, A: core::alloc::Allocator>[ VecDeque::<T, A>::swap_remove_front ](this: &mut VecDeque<T, A>, index: usize) -> (r: Option<T>)
    ensures index < old(this)@.len() ==> r == Some(old(this)@[index as int]),
            index >= old(this)@.len() ==> r.is_none();

pub assume_specification<T, A: core::alloc::Allocator>[ VecDeque::<T, A>::get ](this: &VecDeque<T, A>, index: usize) -> (r: Option<&T>)
    ensures index < this@.len() ==> r == Some(&this@[index as int]),
            index >= this@.len() ==> r.is_none();

pub assume_specification<T, U, F: FnOnce(T) -> U>[ Option::<T>::map_or ](this: Option<T>, default: U, f: F) -> (r: U)
    requires this.is_some() ==> f.requires((this.unwrap(),)),
    ensures this.is_none() ==> r == default,
            this.is_some() ==> f.ensures((this.unwrap(),), r);

impl<T> NumbatList<T> {
    pub closed spec fn wf(&self) -> bool {
        match self.view {
            Some((s, e)) => s <= e && e == self.alloc@.len(),
            None => true,
        }
    }
    pub closed spec fn seq(&self) -> Seq<T> {
        match self.view {
            Some((s, e)) => self.alloc@.subrange(s as int, e as int),
            None => self.alloc@,
        }
    }
}

impl<T: Clone> NumbatList<T> {
    pub fn head(self) -> (r: Option<T>)
        requires self.wf(),
        ensures self.seq().len() == 0 ==> r.is_none(),
                self.seq().len() > 0 ==> r.is_some() && cloned(self.seq()[0], r.unwrap()),
    {
        let front = self.view.map_or(0, |p0: (usize, usize)| { let (start, _end) = p0; start });
        match Arc::try_unwrap(self.alloc) {
            Ok(mut solely_owned) => solely_owned.swap_remove_front(front),
            Err(shared) => shared.get(front).cloned(),
        }
    }
}

} // verus!
fn main() {}
