use vstd::prelude::*;

verus! {

// ---- abstract callee types (contracts only) ----
#[verifier::external_body]
pub struct Transformer { _p: u8 }
#[verifier::external_body]
pub struct TypeChecker { _p: u8 }
#[verifier::external_body]
pub struct BytecodeInterpreter { _p: u8 }
#[verifier::external_body]
pub struct ModulePath { _p: u8 }
#[verifier::external_body]
pub struct ResolverRest { _p: u8 }
pub struct Resolver { pub imported_modules: Vec<ModulePath>, rest: ResolverRest }
#[verifier::external_body]
pub fn clone_modules(v: &Vec<ModulePath>) -> (r: Vec<ModulePath>) ensures r@ == v@ { unimplemented!() }
#[verifier::external_body]
pub struct AstStatements<'a> { _p: &'a str }
#[verifier::external_body]
pub struct TypedStatements<'a> { _p: &'a str }
#[verifier::external_body]
pub struct InterpreterResult { _p: u8 }
#[verifier::external_body]
pub struct InterpreterSettings { _p: u8 }
#[verifier::external_body]
pub fn silent_interpreter_settings() -> InterpreterSettings { unimplemented!() }
pub enum CodeSource { Text, Internal, Other(u8) }
impl CodeSource {
    #[verifier::external_body]
    pub fn clone(&self) -> (r: Self) { unimplemented!() }
}
#[verifier::external_body]
pub struct ResolverError { _p: u8 }
#[verifier::external_body]
pub struct NameResolutionError { _p: u8 }
pub enum TypeCheckError { UnknownIdentifier(Span0, String, Option<String>), Other(u8) }
#[verifier::external_body]
pub struct RuntimeError { _p: u8 }


#[verifier::external_body]
pub fn currency_identifiers() -> &'static [&'static str] { unimplemented!() }

#[verifier::external_body]
pub struct Markup { _p: u8 }
pub mod m { pub use super::Markup; }
#[verifier::external_body]
pub struct Span0 { _p: u8 }
pub enum RuntimeErrorKind { CouldNotLoadExchangeRates, Other }
#[verifier::external_body]
pub struct ExchangeRatesCache { _p: u8 }
impl ExchangeRatesCache {
    #[verifier::external_body]
    pub fn fetch() -> (r: Option<ExchangeRatesCache>) { unimplemented!() }
}

pub assume_specification<T: PartialEq>[ <[T]>::contains ](s: &[T], x: &T) -> bool;

pub enum NumbatError {
    ResolverError(ResolverError),
    NameResolutionError(NameResolutionError),
    TypeCheckError(TypeCheckError),
    RuntimeError(RuntimeError),
}

type Result<T> = std::result::Result<T, Box<NumbatError>>;

impl Transformer {
    pub uninterp spec fn view(&self) -> int;
    #[verifier::external_body]
    pub fn clone(&self) -> (r: Self) ensures r@ == self@ { unimplemented!() }
    #[verifier::external_body]
    pub fn transform<'a>(&mut self, s: AstStatements<'a>) -> (r: std::result::Result<AstStatements<'a>, NameResolutionError>) { unimplemented!() }
}
impl TypeChecker {
    pub uninterp spec fn view(&self) -> int;
    #[verifier::external_body]
    pub fn clone(&self) -> (r: Self) ensures r@ == self@ { unimplemented!() }
    #[verifier::external_body]
    pub fn check<'a>(&mut self, s: &AstStatements<'a>) -> (r: std::result::Result<TypedStatements<'a>, Box<TypeCheckError>>) { unimplemented!() }
}
impl BytecodeInterpreter {
    pub uninterp spec fn view(&self) -> int;
    #[verifier::external_body]
    pub fn clone(&self) -> (r: Self) ensures r@ == self@ { unimplemented!() }
    #[verifier::external_body]
    pub fn interpret_statements<'a>(&mut self, settings: &mut InterpreterSettings, s: &TypedStatements<'a>, t: &Transformer, tc: &TypeChecker) -> (r: std::result::Result<InterpreterResult, Box<RuntimeError>>) { unimplemented!() }
}
impl Resolver {
    pub closed spec fn view(&self) -> Seq<ModulePath> { self.imported_modules@ }
    #[verifier::external_body]
    pub fn resolve<'a>(&mut self, code: &'a str, cs: CodeSource) -> (r: std::result::Result<AstStatements<'a>, ResolverError>)
      { unimplemented!() }
}

pub struct Context {
    prefix_transformer: Transformer,
    typechecker: TypeChecker,
    interpreter: BytecodeInterpreter,
    resolver: Resolver,
    load_currency_module_on_demand: bool,
    terminal_width: Option<usize>,
}

impl Context {
    pub closed spec fn lazy_currency(&self) -> bool { self.load_currency_module_on_demand }
    #[verifier::external_body]
    pub fn runtime_error(&self, kind: RuntimeErrorKind) -> RuntimeError { unimplemented!() }
    pub closed spec fn session(&self) -> (int, int, int, Seq<ModulePath>) {
        (self.prefix_transformer@, self.typechecker@, self.interpreter@, self.resolver@)
    }

    #[verifier::exec_allows_no_decreases_clause]
    pub fn interpret_with_settings<'a>(
        &mut self,
        settings: &mut InterpreterSettings,
        code: &'a str,
        code_source: CodeSource,
    ) -> (res: Result<(TypedStatements<'a>, InterpreterResult)>)
        ensures res.is_err() && !old(self).lazy_currency() ==> final(self).session() == old(self).session(),
    {
        let imported_modules_old = clone_modules(&self.resolver.imported_modules);

        let result = self
            .resolver
            .resolve(code, code_source.clone())
            .map_err(|e| NumbatError::ResolverError(e));

        if result.is_err() {
            self.resolver.imported_modules = clone_modules(&imported_modules_old);
        }

        let statements = result?;

        let prefix_transformer_old = self.prefix_transformer.clone();

        let result = self
            .prefix_transformer
            .transform(statements)
            .map_err(|e| NumbatError::NameResolutionError(e));

        if result.is_err() {
            self.prefix_transformer = prefix_transformer_old.clone();
            self.resolver.imported_modules = clone_modules(&imported_modules_old);
        }

        let transformed_statements = result?;

        let typechecker_old = self.typechecker.clone();

        let result = self
            .typechecker
            .check(&transformed_statements)
            .map_err(|err| NumbatError::TypeCheckError(*err));

        if result.is_err() {
            self.prefix_transformer = prefix_transformer_old.clone();
            self.typechecker = typechecker_old.clone();
            self.resolver.imported_modules = clone_modules(&imported_modules_old);

            if self.load_currency_module_on_demand { if
                   let Err(NumbatError::TypeCheckError(TypeCheckError::UnknownIdentifier(
                    _,
                    identifier,
                    _,
                ))) = &result
            {
                let CURRENCY_IDENTIFIERS: &[&str] = currency_identifiers();
                if CURRENCY_IDENTIFIERS.contains(&identifier.as_str()) {
                    let mut no_print_settings = silent_interpreter_settings();

                    {
                        let erc = ExchangeRatesCache::fetch();

                        if erc.is_none() {
                            return Err(Box::new(NumbatError::RuntimeError(
                                self.runtime_error(RuntimeErrorKind::CouldNotLoadExchangeRates),
                            )));
                        }
                    }

                    let _ = self.interpret_with_settings(
                        &mut no_print_settings,
                        "use units::currencies",
                        CodeSource::Internal,
                    )?;

                    self.load_currency_module_on_demand = false;

                    // Now we try to evaluate the user expression again:
                    return self.interpret_with_settings(settings, code, code_source);
                }
            } }
        }

        let typed_statements = result?;

        let interpreter_old = self.interpreter.clone();

        let result = self.interpreter.interpret_statements(
            settings,
            &typed_statements,
            &self.prefix_transformer,
            &self.typechecker,
        );

        if result.is_err() {
            self.prefix_transformer = prefix_transformer_old;
            self.typechecker = typechecker_old;
            self.interpreter = interpreter_old;
            self.resolver.imported_modules = imported_modules_old;
        }

        let result = result.map_err(|err| NumbatError::RuntimeError(*err))?;

        Ok((typed_statements, result))
    }
}

} // verus!
fn main() {}
