#![feature(allocator_api)]
use vstd::prelude::*;
use std::{collections::VecDeque, sync::Arc};

verus! {

pub struct NumbatList<T> {
    /// The original alloc shared between all values
    alloc: Arc<VecDeque<T>>,
    /// The indexes accessible to us. If this is `None`, we own the whole allocation
    view: Option<(usize, usize)>,
}

pub assume_specification<T: ?Sized, A: core::alloc::Allocator>[ Arc::<T, A>::strong_count ](this: &Arc<T, A>) -> (n: usize)
    ensures n >= 1;

impl<T> NumbatList<T> {
    pub closed spec fn wf(&self) -> bool {
        match self.view {
            Some((s, e)) => s <= e && e == self.alloc@.len(),
            None => true,
        }
    }
    pub closed spec fn seq(&self) -> Seq<T> {
        match self.view {
            Some((s, e)) => self.alloc@.subrange(s as int, e as int),
            None => self.alloc@,
        }
    }

    pub fn len(&self) -> (r: usize)
        requires self.wf(),
        ensures r == self.seq().len(),
    {
        if let Some(view) = self.view {
            view.1 - view.0
        } else {
            self.alloc.len()
        }
    }

    pub fn is_empty(&self) -> (r: bool)
        requires self.wf(),
        ensures r == (self.seq().len() == 0),
    {
        self.len() == 0
    }

    pub fn tail(&mut self) -> (r: Result<(), ()>)
        requires old(self).wf(),
        ensures final(self).wf(),
            old(self).seq().len() == 0 ==> r.is_err() && final(self).seq() == old(self).seq(),
            old(self).seq().len() > 0 ==> r.is_ok() && final(self).seq() == old(self).seq().subrange(1, old(self).seq().len() as int),
    {
        if self.is_empty() {
            return Err(());
        }
        if let Some(view) = &mut self.view {
            view.0 += 1;
            // should be ensured by the if above
            //debug_assert!(view.0 <= view.1);
        } else {
            self.view = Some((1, self.len()));
        }
        Ok(())
    }
}

} // verus!
fn main() {}
