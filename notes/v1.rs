use vstd::prelude::*;
verus! {

pub open spec fn lo(d: u16) -> u8 { (d & 0xff) as u8 }
pub open spec fn hi(d: u16) -> u8 { (d >> 8) as u8 }

#[verifier::external_body]
pub fn u16_to_le_bytes(d: u16) -> (r: [u8; 2])
    ensures r@ == seq![lo(d), hi(d)] { d.to_le_bytes() }

pub struct Span { a: u32 }

pub struct Vm {
    bytecode: Vec<(u8, Vec<u8>, Vec<Span>)>,
    current_chunk_index: usize,
}

impl Vm {
    fn current_chunk_mut(&mut self) -> (r: (&mut Vec<u8>, &mut Vec<Span>))
        requires old(self).current_chunk_index < old(self).bytecode.len(),
        ensures *r.0 == old(self).bytecode[old(self).current_chunk_index as int].1,
            *r.1 == old(self).bytecode[old(self).current_chunk_index as int].2,
            final(self).current_chunk_index == old(self).current_chunk_index,
            final(self).bytecode@ == old(self).bytecode@.update(old(self).current_chunk_index as int,
                (old(self).bytecode[old(self).current_chunk_index as int].0, *final(r.0), *final(r.1))),
    {
        let current = &mut self.bytecode[self.current_chunk_index];
        (&mut current.1, &mut current.2)
    }

    fn push_u16(chunk: &mut Vec<u8>, data: u16)
        ensures final(chunk)@ == old(chunk)@ + seq![lo(data), hi(data)]
    {
        let arg_bytes = u16_to_le_bytes(data);
        chunk.push(arg_bytes[0]);
        chunk.push(arg_bytes[1]);
    }

    pub fn patch_u16_value_at(&mut self, offset: u16, arg: u16)
        requires old(self).current_chunk_index < old(self).bytecode.len(),
                 offset as int + 1 < old(self).bytecode[old(self).current_chunk_index as int].1.len(),
        ensures final(self).bytecode[old(self).current_chunk_index as int].1@ == old(self).bytecode[old(self).current_chunk_index as int].1@.update(offset as int, lo(arg)).update(offset as int + 1, hi(arg)),
    {
        let offset = offset as usize;
        let (bytecode, _spans) = self.current_chunk_mut();
        bytecode[offset] = (arg & 0xff) as u8;
        bytecode[offset + 1] = ((arg >> 8) & 0xff) as u8;
    }
}
}
fn main(){}
