use vstd::prelude::*;
use std::io::Write;

verus! {

#[verifier::external_type_specification]
#[verifier::external_body]
pub struct ExIoError(std::io::Error);

#[verifier::external_body]
pub struct ColorSpec { _p: u8 }
#[derive(PartialEq, Eq)]
pub enum Color { Red, Blue, Other }
impl ColorSpec {
    #[verifier::external_body]
    pub fn fg(&self) -> Option<&Color> { unimplemented!() }
    #[verifier::external_body]
    pub fn bold(&self) -> bool { unimplemented!() }
}

pub uninterp spec fn safe(b: Seq<u8>) -> bool;
pub uninterp spec fn own(b: Seq<u8>) -> bool;

#[verifier::external_body]
pub fn str_as_bytes(s: &str) -> (r: &[u8]) ensures own(r@) { s.as_bytes() }

#[verifier::external_body]
pub fn vec_write_all(v: &mut Vec<u8>, b: &[u8]) -> (r: std::io::Result<()>)
    ensures r is Ok ==> final(v)@ == old(v)@ + b@, r is Err ==> final(v)@ == old(v)@
{ v.write_all(b) }
#[verifier::external_body]
pub fn vec_write(v: &mut Vec<u8>, b: &[u8]) -> (r: std::io::Result<usize>)
    ensures r is Ok ==> final(v)@ == old(v)@ + b@ && r->Ok_0 == b@.len(), r is Err ==> final(v)@ == old(v)@
{ v.write(b) }

pub struct HtmlWriter {
    buffer: Vec<u8>,
    color: Option<ColorSpec>,
}

pub open spec fn appended_ok(old_b: Seq<u8>, new_b: Seq<u8>) -> bool {
    exists|o1: Seq<u8>, e: Seq<u8>, o2: Seq<u8>| new_b == old_b + o1 + e + o2 && (o1.len() == 0 || own(o1)) && safe(e) && (o2.len() == 0 || own(o2))
}

impl HtmlWriter {
    pub closed spec fn buf(&self) -> Seq<u8> { self.buffer@ }

    fn write(&mut self, buf: &[u8]) -> (r: std::io::Result<usize>)
        ensures r is Ok ==> appended_ok(old(self).buf(), final(self).buf()),
    {
        if let Some(color) = &self.color {
            if color.fg() == Some(&Color::Red) {
                vec_write_all(&mut self.buffer, str_as_bytes("<span class=\"numbat-diagnostic-red\">"))?;
                let size = vec_write(&mut self.buffer, buf)?;
                vec_write_all(&mut self.buffer, str_as_bytes("</span>"))?;
                Ok(size)
            } else {
                vec_write(&mut self.buffer, buf)
            }
        } else {
            vec_write(&mut self.buffer, buf)
        }
    }
}
}
fn main(){}
