//! vx-driver: run small scenarios on the real numbat code (witness replay for /verif checks).
//!
//!   vx-driver session [--html] [--no-prelude] < script     inputs separated by lines `%%`
//!   vx-driver listops < program                            NumbatList<f64> ops vs. a Vec model
use std::io::Read;
use std::sync::{Arc, Mutex};

use numbat::diagnostic::{ErrorDiagnostic, ResolverDiagnostic};
use numbat::html_formatter::{HtmlFormatter, HtmlWriter};
use numbat::buffered_writer::BufferedWriter;
use numbat::list::NumbatList;
use numbat::markup::{self as m, Formatter};
use numbat::module_importer::BuiltinModuleImporter;
use numbat::resolver::CodeSource;
use numbat::{Context, InterpreterSettings, NumbatError};

fn read_stdin() -> String {
    let mut s = String::new();
    std::io::stdin().read_to_string(&mut s).unwrap();
    s
}

fn html_diag(ctx: &Context, e: &dyn ErrorDiagnostic) -> String {
    use codespan_reporting::term::{self, Config};
    let mut writer = HtmlWriter::new();
    let config = Config::default();
    for diag in e.diagnostics() {
        term::emit(&mut writer, &config, &ctx.resolver().files, &diag).unwrap();
    }
    writer.to_string()
}

fn session(args: &[String]) {
    let html = args.iter().any(|a| a == "--html");
    let no_prelude = args.iter().any(|a| a == "--no-prelude");
    let mut ctx = Context::new(BuiltinModuleImporter::default());
    Context::use_test_exchange_rates();
    ctx.load_currency_module_on_demand(true);       // the CLI default
    if !no_prelude {
        let _ = ctx.interpret("use prelude", CodeSource::Internal).unwrap();
    }
    let script = read_stdin();
    for (i, input) in script.split("\n%%\n").enumerate() {
        let input = input.trim_end_matches('\n');
        if html && input.starts_with("%info ") {
            // the `info <name>` view of the web front end: rendered WITH indentation
            let info = ctx.print_info_for_keyword(input["%info ".len()..].trim());
            println!("[{i}] OK-HTML {}", HtmlFormatter {}.format(&info, true).replace('\n', "\\n"));
            println!("[{i}] OK-HTML {}", HtmlFormatter {}.format(&info, false).replace('\n', "\\n"));
            continue;
        }
        let printed: Arc<Mutex<Vec<m::Markup>>> = Arc::new(Mutex::new(vec![]));
        let pc = printed.clone();
        let mut settings = InterpreterSettings {
            print_fn: Box::new(move |s: &m::Markup| pc.lock().unwrap().push(s.clone())),
        };
        let res = ctx
            .interpret_with_settings(&mut settings, input, CodeSource::Text)
            .map(|(stmts, r)| {
                let markup = r.to_markup(stmts.last(), &ctx.dimension_registry().clone(), true, true, &numbat::FormatOptions::default());
                (r.value_as_string(), markup)
            })
            .map_err(|b| *b);
        for p in printed.lock().unwrap().iter() {
            if html {
                println!("[{i}] PRINT-HTML {}", HtmlFormatter {}.format(p, false));
            } else {
                println!("[{i}] PRINT {}", p.to_string().replace('\n', "\\n"));
            }
        }
        match res {
            Ok((v, markup)) => {
                if html {
                    println!("[{i}] OK-HTML {}", HtmlFormatter {}.format(&markup, false).replace('\n', "\\n"));
                } else {
                    println!("[{i}] OK {}", v.map(|s| s.to_string()).unwrap_or_else(|| "<continue>".into()));
                }
            }
            Err(e) => {
                let kind = match &e {
                    NumbatError::ResolverError(_) => "ResolverError",
                    NumbatError::NameResolutionError(_) => "NameResolutionError",
                    NumbatError::TypeCheckError(_) => "TypeCheckError",
                    NumbatError::RuntimeError(_) => "RuntimeError",
                };
                if html {
                    let out = match &e {
                        NumbatError::ResolverError(e) => html_diag(&ctx, e),
                        NumbatError::NameResolutionError(e) => html_diag(&ctx, e),
                        NumbatError::TypeCheckError(e) => html_diag(&ctx, e),
                        NumbatError::RuntimeError(e) => html_diag(&ctx, &ResolverDiagnostic { resolver: ctx.resolver(), error: e }),
                    };
                    println!("[{i}] ERR-HTML {kind} {}", out.replace('\n', "\\n"));
                } else {
                    println!("[{i}] ERR {kind} {}", e.to_string().replace('\n', "\\n"));
                }
            }
        }
    }
}

/// program: one op per line over handles a..z of NumbatList<f64>:
///   new a | push_front a 1.5 | push_back a 2 | tail a | clone a b | head a | len a | eq a b | dump a | drop a
/// every handle is mirrored by a plain Vec<f64>; any disagreement prints MISMATCH
fn listops() {
    let prog = read_stdin();
    let mut real: std::collections::BTreeMap<String, NumbatList<f64>> = Default::default();
    let mut model: std::collections::BTreeMap<String, Vec<f64>> = Default::default();
    let mut mismatches = 0;
    let same = |a: &[f64], b: &[f64]| a.len() == b.len() && a.iter().zip(b).all(|(x, y)| x.to_bits() == y.to_bits());
    for (ln, line) in prog.lines().enumerate() {
        let t: Vec<&str> = line.split_whitespace().collect();
        if t.is_empty() { continue; }
        let num = |s: &str| -> f64 { if s == "NaN" { f64::NAN } else { s.parse().unwrap() } };
        match t[0] {
            "new" => { real.insert(t[1].into(), NumbatList::new()); model.insert(t[1].into(), vec![]); }
            "push_front" => { real.get_mut(t[1]).unwrap().push_front(num(t[2])); model.get_mut(t[1]).unwrap().insert(0, num(t[2])); }
            "push_back" => { real.get_mut(t[1]).unwrap().push_back(num(t[2])); model.get_mut(t[1]).unwrap().push(num(t[2])); }
            "tail" => {
                let r = real.get_mut(t[1]).unwrap().tail().is_ok();
                let mv = model.get_mut(t[1]).unwrap();
                let mr = !mv.is_empty();
                if mr { mv.remove(0); }
                if r != mr { mismatches += 1; println!("MISMATCH line {ln}: tail {} ok={r} model ok={mr}", t[1]); }
            }
            "clone" => { let c = real[t[1]].clone(); real.insert(t[2].into(), c); let c = model[t[1]].clone(); model.insert(t[2].into(), c); }
            "drop" => { real.remove(t[1]); model.remove(t[1]); }
            "head" => {
                let r = real[t[1]].clone().head();
                let mr = model[t[1]].first().copied();
                if r.map(f64::to_bits) != mr.map(f64::to_bits) { mismatches += 1; println!("MISMATCH line {ln}: head {} = {r:?} model {mr:?}", t[1]); }
            }
            "len" => {
                let r = real[t[1]].len();
                if r != model[t[1]].len() { mismatches += 1; println!("MISMATCH line {ln}: len {} = {r} model {}", t[1], model[t[1]].len()); }
            }
            "eq" => {
                let r = real[t[1]] == real[t[2]];
                let mr = model[t[1]] == model[t[2]];
                if r != mr { mismatches += 1; println!("MISMATCH line {ln}: {} == {} is {r}, model {mr}", t[1], t[2]); }
            }
            "dump" => {}
            other => panic!("unknown op {other}"),
        }
        // after every op every live handle must hold exactly the model's elements
        for (k, l) in &real {
            let got: Vec<f64> = l.iter().copied().collect();
            if !same(&got, &model[k]) || l.len() != model[k].len() {
                mismatches += 1;
                println!("MISMATCH line {ln} after `{line}`: handle {k} holds {got:?} (len {}), model {:?}", l.len(), model[k]);
            }
        }
    }
    println!("listops done mismatches={mismatches}");
    if mismatches > 0 { std::process::exit(3); }
}

fn main() {
    let args: Vec<String> = std::env::args().collect();
    match args.get(1).map(|s| s.as_str()) {
        Some("session") => session(&args[2..]),
        Some("listops") => listops(),
        _ => { eprintln!("usage: vx-driver session|listops"); std::process::exit(2); }
    }
}
