#!/bin/sh
# usage: confirm_seed.sh <worktree> [extra cargo test args for the demo]
# Confirms an independently written seeded change: demo fails with it, passes without it, unedited suite passes with it.
WT="$1"; shift
EXTRA="$*"
cd "$WT" || exit 2
LOG="$WT/seeded/confirm.log"; : > "$LOG"
say() { echo "$@" | tee -a "$LOG"; }
git apply -R --check seeded/patch.diff 2>/dev/null || { git checkout -- . ; git apply seeded/patch.diff || { say "CONFIRM patch does not apply"; exit 2; }; }
PKG=numbat; SRC=seeded/demo.rs
[ -f seeded/demo_cli.rs ] && { PKG=numbat-cli; SRC=seeded/demo_cli.rs; }
DEMO=$PKG/tests/seeded_demo.rs
[ -f "$DEMO" ] || cp $SRC "$DEMO"
cargo test --offline -p $PKG --test seeded_demo $EXTRA >> "$LOG" 2>&1; A=$?
say "CONFIRM demo-with-change rc=$A (want non-zero)"
git apply -R seeded/patch.diff
cargo test --offline -p $PKG --test seeded_demo $EXTRA >> "$LOG" 2>&1; B=$?
say "CONFIRM demo-without-change rc=$B (want 0)"
git apply seeded/patch.diff
mv "$DEMO" /tmp/$(basename $WT)-demo.rs
cargo test --workspace --no-fail-fast --offline >> "$LOG" 2>&1; C=$?
P=$(grep -E "^test result" "$LOG" | tail -10 | awk '{p+=$4; f+=$6} END {print p" passed "f" failed"}')
say "CONFIRM suite-with-change rc=$C last-10-results: $P"
mv /tmp/$(basename $WT)-demo.rs "$DEMO"
[ $A -ne 0 ] && [ $B -eq 0 ] && [ $C -eq 0 ] && say "CONFIRM OK" || say "CONFIRM FAILED"
