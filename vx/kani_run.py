#!/usr/bin/env python3
"""Runs the Kani harnesses of /verif/kani/number_axioms.rs on the REAL numbat crate (hook: cfg(kani) module at the
end of numbat/src/number.rs) and turns each harness into one obligation. Complete proofs: loop-free, full f64 domain.

Kani's built-in `NaN on addition/subtraction/...` checks are filtered: NaN is a documented numbat value."""
import os, re, subprocess, time

ROOT = os.path.dirname(os.path.dirname(os.path.abspath(__file__)))
REPO = os.environ.get("VERIF_REPO", "/repo")

# harness -> (properties, axiom it discharges)
HARNESSES = {
    "ieee_eq_symmetric": (["C11", "C21"], "axiom_n_eq_sym; != is !=="),
    "ieee_cmp_antisymmetric": (["C11"], "axiom_n_cmp_antisym"),
    "ieee_cmp_some_iff_not_nan": (["C11"], "axiom_n_cmp_some_iff_not_nan"),
    "ieee_cmp_equal_iff_eq": (["C11", "C21"], "axiom_n_cmp_equal_iff_eq; < and <= agree with partial_cmp"),
    "ieee_add_commutes": (["C12"], "axiom_n_add_comm"),
    "ieee_sub_anticommutes": (["C12"], "axiom_n_sub_anti"),
    "ieee_neg_involutive": (["C12"], "axiom_n_neg_neg"),
    "ieee_from_to_roundtrip": (["C11", "C12"], "Number is a transparent f64 wrapper"),
    "ieee_abs": (["C21"], "abs >= 0 or NaN; |x| == |-x|"),
    "ieee_le_total_on_non_nan": (["C11", "C12"], "f64 <= total and antisymmetric on non-NaN (smaller_unit)"),
    "vm_le_bytes": (["C09"], "std u16::{to,from}_{le,be}_bytes contracts used by push_u16 / read_u16, all 65536 values"),
    "ieee_classification": (["C02"], "axiom_f64_classes: is_finite / is_normal / is_subnormal / is_zero / is_infinite / is_nan partition the f64 values as IEEE-754 says"),
    "unicode_operator_chars_not_xid": (["C10"], "axiom_operators_are_not_xid_{start,continue}: checked against unicode_ident's tables for the 33 operator characters"),
    "ieee_lt_asymmetric": (["C11", "C12"], "axiom_f_lt_asymmetric (smaller_unit's two strict comparisons)"),
    "char_is_ascii_digit_is_0_to_9": (["C10"], "assume_specification of char::is_ascii_digit in unit toknum, every char"),
    "char_ascii_classes": (["C10"], "assume_specifications of char::is_ascii / is_ascii_alphanumeric / is_ascii_alphabetic in unit toknum, every char"),
    "ieee_integer_guard": (["C08"], "pretty_print integer branch: is_integer && |x| < 2^53 => exact i64 cast"),
}


def run(name, prop, tier):
    t0 = time.time()
    crate = os.path.join(REPO, "numbat")
    target = os.path.join(ROOT, ".build", "kani-target")
    wanted = [h for h, (ps, _) in HARNESSES.items() if prop in ps]
    env = dict(os.environ, CARGO_NET_OFFLINE="true", CARGO_TARGET_DIR=target)
    cmd = ["cargo", "kani", "--no-default-features"]
    for h in wanted:
        cmd += ["--harness", h]
    res = {"obligations": [], "cmds": ["(cd %s && CARGO_NET_OFFLINE=true CARGO_TARGET_DIR=%s %s)" % (crate, target, " ".join(cmd))],
           "summary": {}, "trusted": ["kani/cbmc: machine f64 semantics are CBMC's IEEE-754 model (round-to-nearest-even)"], "undecided": None}
    if not os.path.exists("/verif/kani/number_axioms.rs"):
        res["undecided"] = "harness file /verif/kani/number_axioms.rs missing"
        return res
    try:
        p = subprocess.run(cmd, cwd=crate, env=env, stdout=subprocess.PIPE, stderr=subprocess.STDOUT, text=True, timeout=3600)
    except subprocess.TimeoutExpired:
        res["undecided"] = "kani timeout"
        return res
    out = p.stdout
    os.makedirs(os.path.join(ROOT, ".build"), exist_ok=True)
    with open(os.path.join(ROOT, ".build", f"kani_{prop}.log"), "w") as f:
        f.write(out)
    blocks = re.split(r"Checking harness ", out)[1:]
    seen = {}
    solver_s = 0.0
    for b in blocks:
        hname = b.split("...")[0].strip().split("::")[-1]
        checks = re.findall(r"Check (\d+): (.+)\n\s+- Status: (\w+)\n\s+- Description: \"(.*?)\"\n(?:\s+- Location: (.*?)\n)?", b)
        # UNREACHABLE = the check's location cannot be reached (e.g. the panic-message formatting behind an assert! that holds)
        fails = [c for c in checks if c[2] not in ("SUCCESS", "UNREACHABLE") and not c[3].startswith("NaN on")]
        filtered = [c for c in checks if c[2] not in ("SUCCESS", "UNREACHABLE") and c[3].startswith("NaN on")]
        m = re.search(r"Verification Time: ([\d.]+)s", b)
        vt = float(m.group(1)) if m else 0.0
        solver_s += vt
        done = "VERIFICATION:-" in b
        seen[hname] = {"checks": len(checks), "failed": [f"{c[1]}: {c[3]} @ {c[4]}" for c in fails], "filtered_nan_checks": len(filtered),
                       "time_s": vt, "completed": done}
    for h in wanted:
        info = seen.get(h)
        if info is None or not info["completed"] or info["checks"] == 0:
            res["undecided"] = f"harness {h} did not run to completion (see .build/kani_{prop}.log): " + out[-400:].replace("\n", " | ")
            continue
        failed = []
        if info["failed"]:
            failed = [{"kind": "kani", "rendered": "\n".join(info["failed"]), "repo_loc": "numbat/src/number.rs", "clause": None}]
        res["obligations"].append({"id": f"ieee::{h}", "kind": "kani-harness", "text": HARNESSES[h][1] + f" ({info['checks']} CBMC checks, {info['filtered_nan_checks']} 'NaN on op' checks filtered)",
                                   "where": "numbat/src/number.rs (real impls) via /verif/kani/number_axioms.rs", "failed": failed, "fn": None})
    res["summary"] = {"harnesses": seen, "wall_s": round(time.time() - t0, 1)}
    res["solver_s"] = solver_s
    return res


def counterexample(harness):
    """concrete playback for a failed harness (best effort)"""
    crate = os.path.join(REPO, "numbat")
    target = os.path.join(ROOT, ".build", "kani-target")
    env = dict(os.environ, CARGO_NET_OFFLINE="true", CARGO_TARGET_DIR=target)
    cmd = ["cargo", "kani", "--no-default-features", "--harness", harness, "-Z", "concrete-playback", "--concrete-playback=print"]
    try:
        p = subprocess.run(cmd, cwd=crate, env=env, stdout=subprocess.PIPE, stderr=subprocess.STDOUT, text=True, timeout=1800)
    except subprocess.TimeoutExpired:
        return None
    m = re.search(r"Concrete playback unit test for.*?```\n(.*?)```", p.stdout, re.S)
    return m.group(1) if m else None


if __name__ == "__main__":
    import json, sys
    r = run("ieee", sys.argv[1] if len(sys.argv) > 1 else "C12", "thorough")
    print(json.dumps({k: v for k, v in r.items() if k != "obligations"}, indent=1)[:3000])
    for o in r["obligations"]:
        print(o["id"], "FAILED" if o["failed"] else "ok")
