#!/usr/bin/env python3
"""rekeep.py [label ...]  -  the OFFICIAL record for the kept seeded changes: for each one, `git -C /repo apply patch.diff`,
run the quick check of every claimed property on /repo itself (so the witness replay on the real crate is available),
`git -C /repo checkout -- .`, and rewrite the result fields of seeded/<label>/meta.json. Never commits to /repo.
Do not edit /verif templates while this runs (the checks read the working tree)."""
import json, os, re, subprocess, sys
from concurrent.futures import ThreadPoolExecutor

ROOT = os.path.dirname(os.path.dirname(os.path.abspath(__file__)))
labels = sys.argv[1:] or sorted(d for d in os.listdir(os.path.join(ROOT, "seeded")) if os.path.exists(os.path.join(ROOT, "seeded", d, "patch.diff")))
props = sorted(json.load(open(os.path.join(ROOT, "contracts", "props.json"))))
head = subprocess.run(["git", "-C", ROOT, "rev-parse", "--short", "HEAD"], stdout=subprocess.PIPE, text=True).stdout.strip()


def run_prop(p):
    env = dict(os.environ, VERIF_OUT=f"/tmp/vx-rekeep-out/{p}")
    r = subprocess.run([os.path.join(ROOT, "check"), p, "--tier", "quick"], env=env, stdout=subprocess.PIPE, stderr=subprocess.STDOUT, text=True)
    lines = []
    for l in r.stdout.split("\n"):
        if not l.startswith(("VIOLATION", "UNDECIDED", "OK")):
            continue
        t = re.sub(r"replay=\S+ ", "", l)
        # keep the verdict-relevant tail when the line is shortened
        lines.append(t if len(t) <= 300 else t[:270] + " ... " + ("no-failing-input-found" if t.endswith("no-failing-input-found") else "(witness replayed)" if t.startswith("VIOLATION") else ""))
    return p, {"exit": r.returncode, "lines": lines[:4]}


# which source files each property's units read (props.json -> templates -> //@ directives)
def files_of(prop):
    fs = set()
    for u in json.load(open(os.path.join(ROOT, "contracts", "props.json")))[prop]["units"]:
        for ln in open(os.path.join(ROOT, "contracts", u + ".vx")):
            m = re.match(r"\s*//@(?:fn|arm|block|stmt|item)\s+(\S+)", ln)
            if m:
                fs.add(m.group(1))
    return fs


PROP_FILES = {p: files_of(p) for p in props}

for label in labels:
    d = os.path.join(ROOT, "seeded", label)
    touched = set(re.findall(r"^diff --git a/(\S+)", open(os.path.join(d, "patch.diff")).read(), re.M))
    own_ = label[:3]
    run_props = [p for p in props if p == own_ or (PROP_FILES[p] & touched)]
    assert subprocess.run(["git", "-C", "/repo", "diff", "--quiet"]).returncode == 0, "/repo dirty"
    ap = subprocess.run(["git", "-C", "/repo", "apply", os.path.join(d, "patch.diff")], stdout=subprocess.PIPE, stderr=subprocess.STDOUT, text=True)
    if ap.returncode != 0:
        print(label, "patch does not apply to the current /repo HEAD:", ap.stdout[:200])
        continue
    try:
        with ThreadPoolExecutor(max_workers=5) as ex:
            results = dict(ex.map(run_prop, run_props))
        for p in props:
            results.setdefault(p, {"exit": 0, "lines": ["not run: the patch touches none of the files this property's units read"]})
    finally:
        subprocess.run(["git", "-C", "/repo", "checkout", "--", "."], check=True)
    mp = os.path.join(d, "meta.json")
    meta = json.load(open(mp)) if os.path.exists(mp) else {}
    own = meta.get("breaks_property", label[:3])
    meta["breaks_property"] = own
    meta["check_results_with_patch_applied"] = results
    meta["detected_by_own_property_check"] = results.get(own, {}).get("exit") == 1
    meta["own_property_outcome"] = {None: "not claimed", 0: "missed (exit 0)", 1: "VIOLATION", 2: "UNDECIDED"}[results.get(own, {}).get("exit")]
    meta["detected_by"] = [p for p, r in results.items() if r["exit"] == 1]
    meta["undecided_in"] = [p for p, r in results.items() if r["exit"] == 2]
    meta["results_recorded_with_verif_commit"] = head
    wi = meta.setdefault("what_i_ran", [])
    note = "vx/rekeep.py: git -C /repo apply patch.diff; ./check <every claimed id> --tier quick (on /repo itself); git -C /repo checkout -- ."
    if note not in wi:
        wi.append(note)
    json.dump(meta, open(mp, "w"), indent=1)
    print(f"{label}: own={own}:{meta['own_property_outcome']} detected_by={meta['detected_by']} undecided={meta['undecided_in']}", flush=True)
