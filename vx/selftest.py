#!/usr/bin/env python3
"""./check-selftest [unit-or-property ...]

Applies each seeded breaking edit from selftest/mutations.json to a scratch copy of /repo's numbat/src
(outside /repo and /verif, removed afterwards) and requires the named check to exit 1 with a VIOLATION
line; `expect: pass` entries are harmless refactors that must keep exit 0. Not a manifest command."""
import json, os, shutil, subprocess, sys, tempfile

ROOT = os.path.dirname(os.path.dirname(os.path.abspath(__file__)))
REPO = os.environ.get("VERIF_REPO", "/repo")

def main():
    muts = json.load(open(os.path.join(ROOT, "selftest", "mutations.json")))
    sel = set(sys.argv[1:])
    bad = 0
    for m in muts:
        if sel and not ({m["property"], m.get("unit", ""), m["name"]} & sel):
            continue
        tmp = tempfile.mkdtemp(prefix="vx-selftest-", dir="/tmp")
        try:
            for sub in ("numbat/src", "numbat-cli/src"):
                shutil.copytree(os.path.join(REPO, sub), os.path.join(tmp, sub))
            p = os.path.join(tmp, m["file"])
            s = open(p).read()
            if s.count(m["from"]) != 1:
                print(f"SELFTEST-ANCHOR {m['name']}: `from` matched {s.count(m['from'])}x"); bad += 1; continue
            open(p, "w").write(s.replace(m["from"], m["to"]))
            env = dict(os.environ, VERIF_REPO=tmp, VERIF_OUT=os.path.join(tmp, "out"))
            r = subprocess.run([os.path.join(ROOT, "check"), m["property"]], env=env, stdout=subprocess.PIPE, stderr=subprocess.STDOUT, text=True)
            want = m.get("expect", "violation")
            ok = (r.returncode == 1 and "VIOLATION" in r.stdout) if want == "violation" else (r.returncode == 0)
            first = [l for l in r.stdout.split("\n") if l.startswith(("VIOLATION", "UNDECIDED", "OK"))][:2]
            print(("ok   " if ok else "MISS ") + f"{m['property']} {m['name']}: want={want} rc={r.returncode} " + " | ".join(x[:160] for x in first))
            bad += 0 if ok else 1
        finally:
            shutil.rmtree(tmp, ignore_errors=True)
    print(f"selftest: {bad} unexpected")
    return 1 if bad else 0

sys.exit(main())
