#!/usr/bin/env python3
"""./check-selftest [unit-or-property ...]

Applies each seeded breaking edit from selftest/mutations.json to a scratch copy of /repo's numbat/src
(outside /repo and /verif, removed afterwards) and requires the named check to exit 1 with a VIOLATION
line; `expect: pass` entries are harmless refactors that must keep exit 0. Not a manifest command."""
import json, os, shutil, subprocess, sys, tempfile

ROOT = os.path.dirname(os.path.dirname(os.path.abspath(__file__)))
REPO = os.environ.get("VERIF_REPO", "/repo")

FILE_PROPS = [("numbat/src/list.rs", ["C18"]), ("numbat/src/ffi/lists.rs", ["C18", "C09"]), ("numbat/src/quantity.rs", ["C11", "C12", "C21", "C04", "C05"]),
              ("numbat/src/unit.rs", ["C11", "C12"]), ("numbat/src/lib.rs", ["C06", "C02"]), ("numbat/src/ffi/procedures.rs", ["C21"]),
              ("numbat/src/html_formatter.rs", ["C20"]), ("numbat/src/markup.rs", ["C20"]), ("numbat/src/vm.rs", ["C09", "C11", "C12", "C04"]),
              ("numbat/src/bytecode_interpreter.rs", ["C09"]), ("numbat-cli/src/main.rs", ["C22"]), ("numbat/src/session_history.rs", ["C07"]), ("numbat/src/resolver.rs", ["C17"]), ("numbat/src/parser.rs", ["C10"]), ("numbat/src/tokenizer.rs", ["C10", "C08"]), ("numbat/src/ffi/math.rs", ["C08"]), ("numbat/src/ffi/macros.rs", ["C08"]), ("numbat/src/parse_quantity.rs", ["C10", "C08"]), ("numbat/src/typechecker/mod.rs", ["C02"]), ("numbat/src/typechecker/constraints.rs", ["C02"]), ("numbat/src/typed_ast.rs", ["C02"]), ("numbat/src/typechecker/substitutions.rs", ["C02"]), ("numbat/src/typechecker/const_evaluation.rs", ["C02", "C08"])]


def harmless():
    """selftest/harmless/*.diff are behaviour-preserving refactorings written by independent sub-agents:
    no check may answer VIOLATION on them (OK or UNDECIDED are both acceptable)."""
    import glob
    bad = 0
    only = [a for a in sys.argv[1:] if not a.startswith("--")]
    for d in sorted(glob.glob(os.path.join(ROOT, "selftest", "harmless", "*.diff"))):
        if only and not any(os.path.basename(d).startswith(o) for o in only):
            continue
        text = open(d).read()
        props = sorted({p for f, ps in FILE_PROPS if f in text for p in ps})
        tmp = tempfile.mkdtemp(prefix="vx-harmless-", dir="/tmp")
        try:
            for sub in ("numbat/src", "numbat-cli/src"):
                shutil.copytree(os.path.join(REPO, sub), os.path.join(tmp, sub))
            r = subprocess.run(["patch", "-p1", "-s", "-i", d], cwd=tmp, stdout=subprocess.PIPE, stderr=subprocess.STDOUT, text=True)
            if r.returncode != 0:
                print(f"SKIP {os.path.basename(d)}: does not apply to the current tree"); continue
            res = []
            for p in props:
                env = dict(os.environ, VERIF_REPO=tmp, VERIF_OUT=os.path.join(tmp, "out"))
                c = subprocess.run([os.path.join(ROOT, "check"), p], env=env, stdout=subprocess.PIPE, stderr=subprocess.STDOUT, text=True)
                res.append(f"{p}:{'OK' if c.returncode == 0 else 'VIOLATION' if c.returncode == 1 else 'UNDECIDED'}")
                bad += 1 if c.returncode == 1 else 0
            print(("ALARM " if any('VIOLATION' in x for x in res) else "ok    ") + os.path.basename(d) + "  " + " ".join(res))
        finally:
            shutil.rmtree(tmp, ignore_errors=True)
    print(f"harmless: {bad} false alarms")
    return 1 if bad else 0


def main():
    if "--harmless" in sys.argv:
        return harmless()
    muts = json.load(open(os.path.join(ROOT, "selftest", "mutations.json")))
    sel = set(sys.argv[1:])
    bad = 0
    for m in muts:
        if sel and not ({m["property"], m.get("unit", ""), m["name"]} & sel):
            continue
        tmp = tempfile.mkdtemp(prefix="vx-selftest-", dir="/tmp")
        try:
            for sub in ("numbat/src", "numbat-cli/src"):
                shutil.copytree(os.path.join(REPO, sub), os.path.join(tmp, sub))
            p = os.path.join(tmp, m["file"])
            s = open(p).read()
            if s.count(m["from"]) != 1:
                print(f"SELFTEST-ANCHOR {m['name']}: `from` matched {s.count(m['from'])}x"); bad += 1; continue
            open(p, "w").write(s.replace(m["from"], m["to"]))
            env = dict(os.environ, VERIF_REPO=tmp, VERIF_OUT=os.path.join(tmp, "out"))
            r = subprocess.run([os.path.join(ROOT, "check"), m["property"]], env=env, stdout=subprocess.PIPE, stderr=subprocess.STDOUT, text=True)
            want = m.get("expect", "violation")
            ok = (r.returncode == 1 and "VIOLATION" in r.stdout) if want == "violation" else (r.returncode == 2) if want == "undecided" else (r.returncode == 0)
            first = [l for l in r.stdout.split("\n") if l.startswith(("VIOLATION", "UNDECIDED", "OK"))][:2]
            print(("ok   " if ok else "MISS ") + f"{m['property']} {m['name']}: want={want} rc={r.returncode} " + " | ".join(x[:160] for x in first))
            bad += 0 if ok else 1
        finally:
            shutil.rmtree(tmp, ignore_errors=True)
    print(f"selftest: {bad} unexpected")
    return 1 if bad else 0

sys.exit(main())
