#!/usr/bin/env python3
"""keep_seed.py <Cxx> <worktree> <label> : copies a confirmed independent seeded change into /verif/seeded/<label>/ and records
what the checks say about it (applies patch to /repo, runs the quick check of every claimed property, reverts)."""
import json, os, re, shutil, subprocess, sys
prop, wt, label = sys.argv[1:4]
dst = f"/verif/seeded/{label}"
os.makedirs(dst, exist_ok=True)
for f in ("patch.diff", "demo.rs", "notes.md"):
    if os.path.exists(f"{wt}/seeded/{f}"):
        shutil.copy(f"{wt}/seeded/{f}", dst)
for f in os.listdir(f"{wt}/seeded"):
    if f.startswith("demo") and not os.path.exists(f"{dst}/{f}"):
        shutil.copy(f"{wt}/seeded/{f}", dst)
confirm = [l.strip() for l in open(f"{wt}/seeded/confirm.log") if l.startswith("CONFIRM")]
props = json.load(open("/verif/contracts/props.json"))
assert subprocess.run(["git", "-C", "/repo", "diff", "--quiet"]).returncode == 0, "/repo dirty"
subprocess.run(["git", "-C", "/repo", "apply", f"{dst}/patch.diff"], check=True)
results = {}
try:
    for p in sorted(props):
        env = dict(os.environ, VERIF_OUT="/tmp/vx-seed-out")
        r = subprocess.run(["/verif/check", p, "--tier", "quick"], env=env, stdout=subprocess.PIPE, stderr=subprocess.STDOUT, text=True)
        lines = [l[:300] for l in r.stdout.split("\n") if l.startswith(("VIOLATION", "UNDECIDED", "OK"))]
        results[p] = {"exit": r.returncode, "lines": [re.sub(r"replay=\S+ ", "", l) for l in lines][:4]}
finally:
    subprocess.run(["git", "-C", "/repo", "checkout", "--", "."], check=True)
files = subprocess.run(["git", "-C", wt, "diff", "--stat"], stdout=subprocess.PIPE, text=True).stdout.strip().split("\n")
meta = {
    "breaks_property": prop,
    "written_by": "independent sub-agent given only the property text and a scratch worktree (no access to /verif)",
    "needs_to_manifest": "see notes.md",
    "confirmed_by_me": confirm,
    "what_i_ran": ["vx/confirm_seed.sh <worktree>: demo with change (must fail), demo without (must pass), unedited suite with change (243 pass)",
                   "vx/keep_seed.py: git -C /repo apply patch.diff; ./check <every claimed id> --tier quick; git -C /repo checkout -- ."],
    "diffstat": files,
    "check_results_with_patch_applied": results,
    "detected_by_own_property_check": results.get(prop, {}).get("exit") == 1,
    "detected_by": [p for p, r in results.items() if r["exit"] == 1],
}
json.dump(meta, open(f"{dst}/meta.json", "w"), indent=1)
print(label, "own-check exit:", results.get(prop, {}).get("exit"), "detected by:", meta["detected_by"])
