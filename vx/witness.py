#!/usr/bin/env python3
"""Witness search / replay on the REAL numbat crate through /verif/driver (built from /repo's working tree).

Verus gives no counterexample. When an obligation fails, this module tries a small, property-specific family
of concrete scenarios and reports the first one on which the real code visibly misbehaves. It only CONFIRMS:
a VIOLATION is reported by the verifier whether or not a witness is found (then the line ends with
no-failing-input-found). Never run on the pass path of the quick tier."""
import itertools
import os
import random
import re
import subprocess

ROOT = os.path.dirname(os.path.dirname(os.path.abspath(__file__)))
DRIVER_DIR = os.path.join(ROOT, "driver")
TARGET = os.path.join(ROOT, ".build", "driver-target")
BIN = os.path.join(TARGET, "release", "vx-driver")


def build_driver():
    if os.environ.get("VERIF_REPO", "/repo") != "/repo":
        raise RuntimeError("driver is bound to /repo; no witness search on a scratch copy")
    subprocess.run(["cp", "/repo/Cargo.lock", os.path.join(DRIVER_DIR, "Cargo.lock")], check=False)
    env = dict(os.environ, CARGO_NET_OFFLINE="true", CARGO_TARGET_DIR=TARGET)
    p = subprocess.run(["cargo", "build", "--offline", "--release"], cwd=DRIVER_DIR, env=env, stdout=subprocess.PIPE, stderr=subprocess.STDOUT, text=True, timeout=1800)
    if p.returncode != 0:
        raise RuntimeError("driver build failed: " + p.stdout[-600:])


def drive(args, stdin_text, timeout=120):
    p = subprocess.run([BIN] + args, input=stdin_text, stdout=subprocess.PIPE, stderr=subprocess.STDOUT, text=True, timeout=timeout)
    return p.returncode, p.stdout


def session(inputs, html=False):
    rc, out = drive(["session"] + (["--html"] if html else []), "\n%%\n".join(inputs))
    res = {}
    for ln in out.split("\n"):
        m = re.match(r"\[(\d+)\] (\S+) ?(.*)", ln)
        if m:
            res.setdefault(int(m.group(1)), []).append((m.group(2), m.group(3)))
    return res, out


# ---------------------------------------------------------------- C18
def w_c18(seed):
    rnd = random.Random(seed)
    ops_all = ["push_front", "push_back", "tail", "clone", "head", "len", "eq", "drop"]
    for trial in range(1500):
        handles = ["a"]
        prog = ["new a"]
        for step in range(rnd.randint(3, 14)):
            op = rnd.choice(ops_all)
            h = rnd.choice(handles)
            if op in ("push_front", "push_back"):
                prog.append(f"{op} {h} {rnd.choice(['1', 'NaN', '0', '-0', '0', '-0'])}")
            elif op == "clone" and len(handles) < 4:
                n = "abcd"[len(handles)]
                handles.append(n)
                prog.append(f"clone {h} {n}")
            elif op == "eq":
                prog.append(f"eq {h} {rnd.choice(handles)}")
            elif op in ("tail", "head", "len"):
                prog.append(f"{op} {h}")
        text = "\n".join(prog) + "\n"
        rc, out = drive(["listops"], text)
        if rc != 0 or "MISMATCH" in out:
            return {"found": True, "kind": "listops", "input": text, "output": out[-1500:], "cmd": f"{BIN} listops", "stdin": text}
    return {"found": False, "note": "1500 random op sequences over <=4 handles of NumbatList<f64> agree with the Vec model"}


# ---------------------------------------------------------------- C06 / C02
FAILING = [
    ("unknown module after import", "use extra::astronomy\nuse does::not::exist"),
    ("name clash after import", "use extra::astronomy\nlet vx_q = 1\nlet meter = 2"),
    ("type error after import and definitions", "use extra::astronomy\nlet vx_q = 1\nfn vx_f(x) = x\nunit vx_u\nlet vx_bad: Length = 1 s"),
    ("runtime error after import and definitions", "use extra::astronomy\nlet vx_q = 1\nfn vx_f(x) = x\nunit vx_u\nprint(\"vx-printed\")\nlet vx_z = 1 / 0"),
    ("failed assertion", "let vx_q = 1\nassert(1 == 2)"),
    ("parse error", "let vx_q = 1\nlet = 3"),
    ("runtime error after plain expressions", "7\n\"seven\"\n1 / 0"),
    ("runtime error in single expression", "8 / 0"),
    ("type error in an input that triggers on-demand currency loading", "2 USD + 1 m"),
    ("runtime error in an input that triggers on-demand currency loading", "1 GBP / 0"),
]
PRE = ["2 + 3"]
PROBES = ["ans", "_ * 2", "vx_q", "vx_f(1)", "vx_u", "lunar_radius -> km", "use extra::astronomy\nlunar_radius -> km", "let vx_q = 2\nvx_q", "fn vx_f(x) = 2 x\nvx_f(1)", "1 + 1", "let USD = 5\nUSD"]


def w_c06(seed, want_c02=False):
    base0, _ = session(PRE + PROBES)
    base = {i: base0.get(i + len(PRE)) for i in range(len(PROBES))}
    for name, bad in FAILING:
        got0, raw = session(PRE + [bad] + PROBES)
        got = {i: got0.get(i + len(PRE)) for i in range(len(PROBES) + 1)}
        if want_c02:
            first = got.get(0, [])
            kinds = [k for k, _ in first]
            if any(k.startswith("ERR") and ("TypeCheckError" in v or "NameResolution" in v or "ResolverError" in v) for k, v in first) and "PRINT" in kinds:
                return {"found": True, "kind": "session", "input": bad, "output": raw[:1500], "what": "a rejected input printed something", "cmd": f"{BIN} session", "stdin": bad}
            continue
        for i in range(len(PROBES)):
            if got.get(i + 1) != base.get(i):
                text = "\n%%\n".join(PRE + [bad] + PROBES)
                return {"found": True, "kind": "session", "what": f"after failing input ({name}) probe `{PROBES[i]}` gives {got.get(i + 1)} instead of {base.get(i)}",
                        "input": text, "output": raw[:2000], "cmd": f"{BIN} session", "stdin": text}
    if not want_c02:
        # on-demand loading of the currency module: the first attempt at the input fails internally (unknown identifier), is rolled
        # back, the module is loaded and the input is evaluated again - the outcome must be that of a session that had the module
        for seq in ([("unit vx_cur\n2 USD", "2 $"), ("vx_cur", "1 vx_cur")], [("dimension VxDim\n2 USD", "2 $"), ("unit vx_d: VxDim\nvx_d", "1 vx_d")],
                    [("struct VxS { a: Scalar }\n1 GBP", "1 £"), ("VxS { a: 1 }.a", "1")], [("use extra::astronomy\n2 USD", "2 $"), ("lunar_radius -> km", "1737.4 km")]):
            r = _sequence(seq, "on-demand currency loading", "")
            if r.get("found"):
                return r
    return {"found": False, "note": f"{len(FAILING)} failing inputs x {len(PROBES)} probes: session behaves as if the failing input had not been submitted; 4 inputs that trigger on-demand currency loading behave like inputs of a session that had the module"}


# ---------------------------------------------------------------- C11 / C12
UNITS = ["m", "cm", "km", "inch", "ft", "mile", "firkin", "long_hundredweight", "kg", "lb", "s", "min", "hour", "Hz", "Bq", "K", "degC"]
DIM = {"m": "L", "cm": "L", "km": "L", "inch": "L", "ft": "L", "mile": "L", "firkin": "M", "long_hundredweight": "M", "kg": "M", "lb": "M",
       "s": "T", "min": "T", "hour": "T", "Hz": "F", "Bq": "F"}
MAGS = ["0", "1", "-1", "40.5", "0.1", "3", "1e30", "1e-30", "NaN", "inf", "36", "2.54", "-0"]


def w_c11(seed):
    rnd = random.Random(seed)
    pairs = [(u, v) for u in DIM for v in DIM if DIM[u] == DIM[v]]
    exprs = []
    for (u, v) in pairs:
        for _ in range(3):
            a = f"({rnd.choice(MAGS)} {u})"
            b = rnd.choice([f"({rnd.choice(MAGS)} {v})", f"({a} -> {v})"])
            exprs.append((a, b))
    # different units of EXACTLY equal size (bit-identical conversion factors): the choice of the common unit must not depend on the operand order
    for a, b in [("(29 kph)", "(29 km/h)"), ("(23 mph)", "(23 mile/hour)"), ("(123.456 mL)", "(123.456 cm^3)"), ("(0.7 kph)", "(0.7 km/h)"), ("(3.3 Hz)", "(3.3 Bq)"), ("(1.1 L)", "(1.1 dm^3)")]:
        exprs.append((a, b))
    # two user-defined units with the SAME definition: they differ in nothing but their names
    for a, b in [("(0.7 vx_aa)", "(0.7 vx_bb)"), ("(29 vx_aa)", "(29 vx_bb)"), ("(3 vx_bb)", "(3 vx_aa)"), ("(0.1 vx_aa)", "(0.3 vx_bb)")]:
        exprs.append((a, b))
    inputs = []
    defs = "unit vx_aa = 0.1 m\nunit vx_bb = 0.1 m\n"
    for a, b in exprs:
        pre = ""
        if "vx_aa" in a + b and defs:
            pre, defs = defs, ""
        inputs.append(pre + f"[{a} == {b}, {b} == {a}, {a} != {b}, {a} < {b}, {b} > {a}, {a} <= {b}, {b} >= {a}, {a} > {b}]")
    got, raw = session(inputs)
    for i, (a, b) in enumerate(exprs):
        r = got.get(i, [])
        if not r or r[0][0] != "OK":
            continue
        vals = [x.strip() for x in r[0][1].strip("[]").split(",")]
        if len(vals) != 8:
            continue
        eq1, eq2, ne, lt, gt_rev, le, ge_rev, gt = vals
        bad = None
        if eq1 != eq2:
            bad = f"{a} == {b} is {eq1} but reversed is {eq2}"
        elif (ne == "true") == (eq1 == "true"):
            bad = f"{a} != {b} is {ne} while == is {eq1}"
        elif lt != gt_rev:
            bad = f"{a} < {b} is {lt} but {b} > {a} is {gt_rev}"
        elif le != ge_rev:
            bad = f"{a} <= {b} is {le} but {b} >= {a} is {ge_rev}"
        elif "NaN" in a + b and "true" in (lt, gt, le):
            bad = f"ordering comparison with NaN is true: {inputs[i]} = {r[0][1]}"
        elif "NaN" not in a + b and [lt, eq1, gt].count("true") != 1:
            bad = f"not exactly one of <, ==, > for {a}, {b}: {lt}, {eq1}, {gt}"
        if bad:
            return {"found": True, "kind": "session", "what": bad, "input": inputs[i], "output": r[0][1], "cmd": f"{BIN} session", "stdin": inputs[i]}
    return {"found": False, "note": f"{len(exprs)} same-dimension pairs: comparisons are order-independent"}


def w_c12(seed):
    rnd = random.Random(seed)
    # C12's display clause is only claimed "when the operands' units differ in size": Hz / Bq are the same size
    pairs = [(u, v) for u in DIM for v in DIM if DIM[u] == DIM[v] and {u, v} != {"Hz", "Bq"}]
    inputs, meta = [], []
    for (u, v) in pairs:
        for _ in range(2):
            a, b = f"({rnd.choice(MAGS[:11])} {u})", f"({rnd.choice(MAGS[:11])} {v})"
            inputs.append(f"\"{{{a} + {b}}} | {{{b} + {a}}} | {{{a} - {b}}} | {{-({b} - {a})}}\"")
            meta.append((a, b))
    for a, b in [("(29 kph)", "(29 km/h)"), ("(23 mph)", "(23 mile/hour)"), ("(0.7 kph)", "(0.3 km/h)")]:
        inputs.append(f"\"{{{a} + {b}}} | {{{a} + {b}}} | {{{a} - {b}}} | {{-({b} - {a})}}\"")       # subtraction clause only (the display clause is for units of different size)
        meta.append((a, b))
    # compound units whose sizes differ only through fractional or negative exponents
    for a, b in [("sqrt(4 km)", "sqrt(9 m)"), ("cbrt(8 L)", "cbrt(27 mL)"), ("(3 V / sqrt(1 Hz))", "(5 mV / sqrt(1 Hz))"), ("(2 / km)", "(3 / m)"), ("(1 / sqrt(4 s))", "(1 / sqrt(9 ms))"),
                 ("(2 m^2 / s)", "(3 cm^2 / s)"), ("(1 kg / m^3)", "(1 g / cm^3)"), ("(3 km/h)", "(2 m/s)"), ("(2 N m)", "(3 N cm)")]:
        inputs.append(f"\"{{{a} + {b}}} | {{{b} + {a}}} | {{{a} - {b}}} | {{-({b} - {a})}}\"")
        meta.append((a, b))
    # two user-defined units with the SAME definition (equal size: only the subtraction clause applies)
    defs = "unit vx_aa = 0.1 m\nunit vx_bb = 0.1 m\n"
    for a, b in [("(0.7 vx_aa)", "(0.7 vx_bb)"), ("(29 vx_aa)", "(29 vx_bb)"), ("(3 vx_bb)", "(0.1 vx_aa)")]:
        inputs.append(defs + f"\"{{{a} + {b}}} | {{{a} + {b}}} | {{{a} - {b}}} | {{-({b} - {a})}}\"")
        defs = ""
        meta.append((a, b))
    got, raw = session(inputs)
    for i, (a, b) in enumerate(meta):
        r = got.get(i, [])
        if not r or r[0][0] != "OK":
            continue
        parts = [p.strip() for p in r[0][1].strip('"').split("|")]
        if len(parts) != 4:
            continue
        za = a.split()[0].strip("(") in ("0", "-0")
        zb = b.split()[0].strip("(") in ("0", "-0")
        if za and zb:
            continue
        if parts[0] != parts[1] and "NaN" not in parts[0]:
            return {"found": True, "kind": "session", "what": f"{a} + {b} displays `{parts[0]}` but reversed displays `{parts[1]}`", "input": inputs[i], "output": r[0][1], "cmd": f"{BIN} session", "stdin": inputs[i]}
        norm = lambda s: s.replace("-0 ", "0 ")
        if norm(parts[2]) != norm(parts[3]) and "NaN" not in parts[2]:
            return {"found": True, "kind": "session", "what": f"{a} - {b} displays `{parts[2]}` but -({b} - {a}) displays `{parts[3]}`", "input": inputs[i], "output": r[0][1], "cmd": f"{BIN} session", "stdin": inputs[i]}
    return {"found": False, "note": f"{len(meta)} same-dimension pairs: + commutes and - anti-commutes in display"}


# ---------------------------------------------------------------- C21
def w_c21(seed):
    cases = [
        ("assert(1 == 1)", True), ("assert(1 == 2)", False), ("assert(true)", True), ("assert(false)", False),
        ("assert_eq(1 m, 100 cm)", True), ("assert_eq(1 m, 101 cm)", False), ("assert_eq(\"a\", \"a\")", True), ("assert_eq(\"a\", \"b\")", False),
        ("assert_eq([1, 2], [1, 2])", True), ("assert_eq([1, 2], [2, 1])", False), ("assert_eq(true, true)", True),
        ("assert_eq(1 m, 1.05 m, 10 cm)", True), ("assert_eq(1 m, 1.2 m, 10 cm)", False), ("assert_eq(1 m, 1.1 m, 0.1 m)", None),
        ("assert_eq(1.2 m, 1 m, 10 cm)", False), ("assert_eq(1 m, 90 cm, 10.000001 cm)", True), ("assert_eq(2, 2.5, 0.5)", True), ("assert_eq(2, 2.5, 0.49)", False),
        ("assert_eq(NaN, NaN)", False), ("assert_eq(NaN, 1, 100)", False), ("assert_eq(-1 m, 1 m, 1 m)", False), ("assert_eq(-1 m, 1 m, 2 m)", True),
        ("assert_eq([1, 2, 3], [1, 2])", False), ("assert_eq([1, 2], [1, 2, 3])", False), ("assert_eq([], [1])", False), ("assert_eq([[1], [2]], [[1], [2]])", True), ("assert_eq([[1], [2]], [[1], [2, 3]])", False),
        ("assert_eq(\"ab\", \"abc\")", False), ("assert_eq(false, true)", False), ("assert_eq(1 km, 1000 m)", True), ("assert_eq(1000 m, 1 km)", True), ("assert_eq(1 km, 1001 m, 2 m)", True), ("assert_eq(1 km, 1001 m, 0.5 m)", False),
        ("assert_eq(1001 m, 1 km, 0.0005 km)", False), ("assert_eq(1001 m, 1 km, 0.002 km)", True),
    ]
    inputs = [c + "\nprint(\"vx-marker\")" for c, _ in cases]
    got, raw = session(inputs)
    for i, (c, want) in enumerate(cases):
        r = got.get(i, [])
        ok = any(k == "OK" for k, _ in r)
        marker = any(k == "PRINT" and "vx-marker" in v for k, v in r)
        if want is not None and ok != want:
            return {"found": True, "kind": "session", "what": f"`{c}` {'succeeded' if ok else 'failed'} but the documented predicate says it should {'succeed' if want else 'fail'}", "input": inputs[i], "output": str(r), "cmd": f"{BIN} session", "stdin": inputs[i]}
        if not ok and marker:
            return {"found": True, "kind": "session", "what": f"`{c}` failed but a later statement of the same input ran", "input": inputs[i], "output": str(r), "cmd": f"{BIN} session", "stdin": inputs[i]}
    return {"found": False, "note": f"{len(cases)} assertion cases decide their documented predicate"}


# ---------------------------------------------------------------- C20
OWN = re.compile(r'<span class="numbat-[a-z-]+">|</span>')


def w_c20(seed):
    inputs = ["let x = <img src=x onerror=alert(1)> + 1", "\"<b>bold</b> & co\"", "let a&b = 1", "print(\"<script>alert(1)</script>\")",
              "let <i>x = 1", "unknown_<u>ident", "1 m + 1 s # <b>comment</b>", "error(\"<img src=x>\")", "fn f<T>(x: T) = x + <b>",
              "struct A { a: <x> }", "fn f(x) = if x == \"<img src=x onerror=alert(1)>\" then x * 2 else 1", "struct script {}\nfn g(x) = [x, script {}, [script {}]]", "\"&lt; already & escaped\"", "assert_eq(\"<a>\", \"<b>\")", "use <evil>::module", "\"{\"<u>\"}\"", "'<'",
              "@name(\"Magnetic flux\\n<img src=x onerror=alert(1)>\")\n@url(\"https://x.example/?a=<b>&c\")\nlet vx_flux = 2 weber", "%info vx_flux",
              "@name(\"<i>fn</i>\")\n@description(\"first <b>line</b>\\nsecond <u>line</u>\")\nfn vx_doc(x: Scalar) -> Scalar = x", "%info vx_doc", "%info <script>"]
    got, raw = session(inputs, html=True)
    for i, inp in enumerate(inputs):
        for k, v in got.get(i, []):
            if not k.endswith("HTML"):
                continue
            body = v
            if k == "ERR-HTML":
                body = v.split(" ", 1)[1] if " " in v else ""
            rest = OWN.sub("", body)
            if "<" in rest or ">" in rest or re.search(r"&(?!amp;|lt;|gt;|quot;|#x27;|#x2F;|#\d+;)", rest):
                return {"found": True, "kind": "session-html", "what": "HTML output contains unescaped markup outside the renderer's own spans: " + rest[:200], "input": inp, "output": v[:1500], "cmd": f"{BIN} session --html", "stdin": inp}
    return {"found": False, "note": f"{len(inputs)} inputs with HTML metacharacters render with no foreign tag"}


# ---------------------------------------------------------------- C09
C09_PROGRAMS = [
    ("let offset_a = 10\nlet offset_b = 20\nlet scale = 300\nfn scaled(x) = x * scale where scale = x + 1\nfn global_scale() = scale\n[scaled(2), global_scale(), scale]", "[6, 300, 300]"),
    ("let x = 1\nlet x = x + 1\nfn f(x) = x * 10\n[x, f(3), f(x)]", "[2, 30, 20]"),
    ("if 1 < 2 then 10 else 20", "10"), ("if 2 < 1 then 10 else 20", "20"), ("if NaN < 1 then 1 else 2", "2"),
    ("!(NaN < 1)", "true"), ("!(1 < NaN)", "true"), ("!(2 <= 1)", "true"), ("!(1 == 1)", "false"),
    ("[1, 2, 3]", "[1, 2, 3]"), ("head([7, 8, 9])", "7"), ("len([4, 5, 6, 7])", "4"), ("cons(1, [2, 3])", "[1, 2, 3]"), ("cons_end(4, [2, 3])", "[2, 3, 4]"),
    ("struct P { a: Scalar, b: Scalar }\nlet p = P { b: 2, a: 1 }\n[p.a, p.b]", "[1, 2]"),
    ("let a = 3\n\"{a}-{a + 1}-{a + 2}\"", "\"3-4-5\""),
    ("fn sub3(a, b, c) = a - b - c\nsub3(10, 3, 2)", "5"), ("10 - 3 - 2", "5"), ("2^3^2", "512"), ("-2^2", "-4"),
    ("true && false || true", "true"), ("fn fact(n) = if n < 1 then 1 else n * fact(n - 1)\nfact(5)", "120"),
    ("fn twice(f, x) = f(f(x))\nfn inc(x) = x + 1\ntwice(inc, 5)", "7"), ("3 |> sqr", "9"),
    ("let t = if true then if false then 1 else 2 else 3\nt", "2"),
    ("fn shadowed(x) = x where x = 2\nshadowed(1)", "2"),
    ("fn percent_plus_one(v) = v * k where v = v / 100 and k = v + 1\npercent_plus_one(50)", "0.75"),
    ("fn inc(x) = x + 1\nfn dbl(x) = 2 x\nfn apply(inc: Fn[(Scalar) -> Scalar], v: Scalar) -> Scalar = inc(v)\napply(dbl, 10)", "20"),
    ("fn vx_three(a, b, c) = a * 100 + b * 10 + c\nvx_three(1, 2, 3)", "123"),
    ("struct Q { first: Scalar, second: Scalar, third: Scalar }\nlet q = Q { third: 3, first: 1, second: 2 }\nq.first * 100 + q.second * 10 + q.third", "123"),
    ("let vx_s = \"b\"\n\"a{vx_s}c{1 + 1}d\"", "\"abc2d\""),
    ("fn outer(x) = inner(x) + x where inner = sqr\nouter(3)", "12"),
    # built-in (foreign) functions called through a function value keep the argument order
    ("let vx_fn = mod\nvx_fn(17, 5)", "2"), ("fn vx_ap(f: Fn[(Scalar, Scalar) -> Scalar], a: Scalar, b: Scalar) -> Scalar = f(a, b)\nvx_ap(mod, 17, 5)", "2"),
    ("let vx_sl = str_slice\nvx_sl(1, 3, \"abcdef\")", "\"bc\""), ("mod(17, 5)", "2"), ("let vx_cons = cons\nvx_cons(1, [2, 3])", "[1, 2, 3]"),
]


def w_c09(seed):
    got, raw = session([p for p, _ in C09_PROGRAMS])
    for i, (prog, want) in enumerate(C09_PROGRAMS):
        r = got.get(i, [])
        val = next((v for k, v in r if k == "OK"), None)
        if val is None or val.strip() != want:
            return {"found": True, "kind": "session", "what": f"program evaluates to {val!r} (or fails: {r[:1]}) but its source means {want}", "input": prog, "output": str(r)[:400], "cmd": f"{BIN} session", "stdin": prog}
    seq = ["use prelude", "fn vx_step(x) = x + 1", "map(vx_step, [1, 2, 3])", "fn vx_step(x) = x + 10", "map(vx_step, [1, 2, 3])", "vx_step(1)"]
    got2, raw2 = session(seq)
    v4 = next((v for k, v in got2.get(4, []) if k == "OK"), None)
    if v4 is None or v4.strip() != "[11, 12, 13]":
        return {"found": True, "kind": "session", "what": f"after redefining a function in a later input, a call through a function value gives {v4!r} instead of [11, 12, 13]", "input": "\n%%\n".join(seq), "output": str(got2)[:400], "cmd": f"{BIN} session", "stdin": "\n%%\n".join(seq)}
    return {"found": False, "note": f"{len(C09_PROGRAMS)} programs (shadowing, where-clauses, conditionals, NaN comparisons, lists, structs, strings, recursion, function values) evaluate to their expected values"}


# ---------------------------------------------------------------- C10 / C04 / C05: value tables (expected results follow from the
# documented precedence table / the statement; every entry evaluates as stated on the unchanged tree)
def _table(cases, what, note):
    got, raw = session(["use prelude"] + [c for c, _ in cases])
    for i, (prog, want) in enumerate(cases):
        r = got.get(i + 1, [])
        if want == "ERR":
            if not any(k == "ERR" for k, _ in r):
                return {"found": True, "kind": "session", "what": f"{what}: `{prog}` is outside the grammar and must be rejected, but it is accepted: {r[:2]}", "input": "use prelude\n%%\n" + prog, "output": str(r)[:400], "cmd": f"{BIN} session", "stdin": "use prelude\n%%\n" + prog}
            continue
        vals = [v.strip() for k, v in r if k in ("OK", "PRINT")]
        if want not in vals:
            return {"found": True, "kind": "session", "what": f"{what}: `{prog}` gives {vals or r[:1]} but must give {want}", "input": "use prelude\n%%\n" + prog, "output": str(r)[:400], "cmd": f"{BIN} session", "stdin": "use prelude\n%%\n" + prog}
    return {"found": False, "note": f"{len(cases)} {note}"}


C10_CASES = [("2^-2^2", "0.0625"), ("2^3^2", "512"), ("-2^2", "-4"), ("2^-2", "0.25"), ("6 / 2 3", "1"), ("12 per 2 * 3", "18"), ("12 / 2 per 3", "18"), ("2 * 3 per 6", "1"),
             ("10 - 3 - 2", "5"), ("2 + 3 * 4", "14"), ("!true || true", "true"), ("true || false && false", "true"),
             ("if true then 16 else 81 |> sqrt", "4"), ("if 1 < 2; then 10 else 20", "ERR"), ("if 1 < 2 then 10; else 20", "ERR"), ("if true then 16 |> sqrt else 81", "ERR"),
             ("3!^2", "36"), ("2^3!", "64"), ("2²!", "24"), ("-3!", "-6"), ("2 3^2", "18"), ("if true then 1 else 2 + 1", "1"), ("1 + 2 < 4 && true", "true"),
             ("!false && false", "false"), ("2 m per 4 s * 2", "1 m/s"), ("8 / 2 / 2", "2"), ("2^2^-1", "1.41421"), ("- 2 3", "-6"), ("100 cm -> m -> cm", "100 cm"),
             ("if false then 1 else if false then 2 else 3", "3"), ("2⁻¹", "0.5"), ("(2 + 3) 2", "10"), ("1 + 1 == 2 || false", "true"), ("4 |> sqrt |> sqrt", "1.41421"),
             ("2 ^ 3 per 4", "2"), ("-2!", "-2"), ("3 - -2", "5"), ("2 × 3 ÷ 6", "1"),
             # number literals: every documented form, combined ("without the leading zero" + scientific notation, digit separators)
             ("let vx_x = 2\nvx_x%", "ERR"), ("let rate% = 5\nrate%", "5"), ("8 per%", "ERR"), ("let vx_a = 2\nlet vx_b = 3\nvx_a≤vx_b", "true"), (".5e-3", "0.0005"), (".5e+3", "500"), ("-.5e-3", "-0.0005"), ("2 - .1e-2", "1.999"), ("1.5e3", "1500"), ("1e-3", "0.001"), ("1_000.5", "1000.5"), ("1.e3", "1000"), ("1E3", "1000"), ("1_e3", "ERR"), ("1._5", "ERR"), ("1.5.2", "ERR"), (".e3", "ERR"), ("2 e", "5.43656"), ("0x1F + 1", "32"), ("0b101", "5"), ("0o17", "15"), ("0x", "ERR"), ("0b12", "ERR"),
             # calls, argument lists, field access, parenthesised and list primaries
             ("sqrt(16)", "4"), ("mod(7, 3,)", "1"), ("mod(\n7,\n3\n)", "1"), ("len([1, 2, 3])", "3"), ("[1, 2, 3,]", "[1, 2, 3]"), ("[true false]", "ERR"), ("(2 + 3", "ERR"),
             ("sqrt(16]", "ERR"), ("mod(7; 3)", "ERR"), ("head([4, 5])", "4"), ("[1, 2\n,3]", "[1, 2, 3]"), ("struct P { x: Scalar }\nP { x: 3 }.x", "3"), ("[]", "[]"), ("[\n]", "[]"),
             ("mod(true false)", "ERR"), ("(2 + 3] 2", "ERR"), ("sqrt(16) 2", "8"), ("[[1, 2], [3]]", "[[1, 2], [3]]"), ("element_at(1, [4, 5])", "5"), ("[1,, 2]", "ERR"), ("mod(7,, 3)", "ERR"), ("2(3 + 4)", "ERR"), ("12 / 2(3)", "ERR"),
             # equality and ordering operators share ONE non-associative-looking level that is left-associative: `true == 1 < 2` is `(true == 1) < 2`, ill-typed
             ("true == 1 < 2", "ERR"), ("1 < 2 == true", "true"), ("false != 2 > 3", "ERR"), ("1 < 2 != false", "true"),
             # Unicode operator spellings written WITHOUT spaces after an identifier: the operator character ends the identifier
             ("pi≤4", "true"), ("pi≥4", "false"), ("pi≠3", "true"), ("pi−pi", "0"), ("1 m→cm", "100 cm"), ("1 m➞cm", "100 cm"), ("e⩵e", "true"), ("pi×2÷pi", "2"), ("pi·2", "6.28319"),
             ("struct P { x: Scalar }\nP { x: 3 }:x", "ERR")]
C04_CASES = [("(10 m -> 2 m) -> m", "10 m"), ("6 hours -> 45 min", "8 × 45 min"), ("(0 m -> 2 m) -> cm", "0 cm"), ("1 km -> m", "1000 m"),
             ("let shifts = 6 hours -> 45 min\nshifts -> min", "360 min"), ("2 km^(2/3) -> m^(2/3)", "200 m^(2/3)"), ("1 mile -> km -> mile", "1 mi"), ("1 inch -> cm", "2.54 cm"),
             ("5 m * 2 cm -> m*cm", "10 m·cm"), ("2 kg m / s^2 -> N", "2 N"), ("-(1 km -> m) + 0 m", "-1000 m"), ("100 cm -> m -> cm", "100 cm")]
C05_CASES = [("10 N / 5 Pa -> N/Pa", "2 N/Pa"), ("120 J / 60 W -> J/W", "2 J/W"), ("10 N / 5 Pa", "2 m²"), ("1 J / 1 s", "1 W"), ("print(10 N / 5 Pa -> N/Pa)", "2 N/Pa"),
             ("\"{10 N / 5 Pa -> N/Pa}\"", "\"2 N/Pa\""), ("1 km / 1 m", "1000"), ("5 m * 2 cm -> m*cm", "10 m·cm"), ("3 pN * 2 nm -> pN*nm", "6 pN·nm"),
             # registry-based simplification CONVERTS (the magnitude follows the unit): products of small prefixed units
             ("1 pN * 1 nm", "0.000458742 Ry"), ("2 µW * 3 ps", "2.75245 Ry"), ("3 pN * 2 nm", "0.00275245 Ry"), ("\"{3 pN * 2 nm}\"", "\"0.00275245 Ry\""),
             ("(3 pN * 2 nm) -> pN*nm", "6 pN·nm"), ("(30 mpg * 2 gallon) -> mile", "60 mi"), ("(1 swimmingpool / 1 footballfield) -> m", "0.35014 m"), ("30 mpg * 2 gallon", "619578 gal^(1/3)"), ("50 Ω * 2 A", "100 V"), ("2 mA * 3 mV", "6 mA·mV")]


def w_c10(seed):
    return _table(C10_CASES, "parsing", "expressions decided by precedence / associativity evaluate as the documented table prescribes")


def w_c04(seed):
    return _table(C04_CASES, "conversion", "conversions are displayed in exactly the requested unit with the expected magnitude")


def w_c05(seed):
    return _table(C05_CASES, "simplification", "displayed / printed / interpolated values keep explicitly chosen units and simplify the others")


# ---------------------------------------------------------------- C17 / C07: input sequences (each element is one input of ONE session)
def _sequence(seq, what, note):
    got, raw = session([c for c, _ in seq])
    for i, (inp, want) in enumerate(seq):
        if want is None:
            continue
        r = got.get(i, [])
        vals = [v.strip() for k, v in r if k in ("OK", "PRINT")]
        if want not in vals:
            text = "\n%%\n".join(c for c, _ in seq[:i + 1])
            return {"found": True, "kind": "session", "what": f"{what}: input #{i} `{inp}` gives {vals or r[:1]} but must give {want}", "input": text, "output": str(r)[:400], "cmd": f"{BIN} session", "stdin": text}
    return {"found": False, "note": f"{len(seq)} {note}"}


def w_c17(seed):
    seq = [("use prelude", "<continue>"), ("use extra::astronomy", "<continue>"), ("use extra::astronomy", "<continue>"), ("lunar_radius -> km", "1737.4 km"),
           ("use prelude", "<continue>"), ("1 m + 2 m", "3 m"), ("use units::si\nuse units::si\nuse core::scalar", "<continue>"), ("3 kg", "3 kg"),
           ("use extra::astronomy\nuse prelude\nuse extra::astronomy", "<continue>"), ("lunar_radius -> km", "1737.4 km"),
           # an input that imports a new module and then fails: afterwards every import behaves as if that input had not been submitted
           ("use extra::cooking\nlet vx_d: Length = 1 second", None), ("use units::us_customary", "<continue>"), ("use prelude", "<continue>"), ("use extra::cooking", "<continue>"),
           ("1 gallon -> gallon", "1 gal"), ("use core::lists\nuse does::not::exist", None), ("use core::lists", "<continue>"), ("use units::si", "<continue>"), ("len([1, 2])", "2")]
    return _sequence(seq, "imports", "inputs with repeated imports of already imported modules succeed and change nothing")


def w_c07(seed):
    seq = [("use prelude", None), ("2 + 3", "5"), ("ans * 2", "10"), ("7\n_ + 1", "8"), ("ans", "8"), ("let vx_x = 4\nvx_x + ans", "12"), ("ans + _", "24"), ("5 km / 2 m", "2500"), ("ans * 2 m", "5 km"), ("5 km / 2 m\nans * 2 m", "5 km")]
    return _sequence(seq, "last result", "inputs using `ans` / `_` give the value of the most recent expression statement, one at a time or batched")


# ---------------------------------------------------------------- C02: accepted / rejected by the type checker
C02_CASES = [("1 m + 1 s", "TC"), ("1 m + 1 cm", "101 cm"), ("1 m < 1 s", "TC"), ("1 m -> s", "TC"), ("if true then 1 m else 1 s", "TC"), ("if 1 then 2 else 3", "TC"),
             ("let vx_l: Length = 1 s", "TC"), ("let vx_t: Time = 2 s\nvx_t", "2 s"), ("1e-310 + 1 m", "TC"), ("0 + 1 m", "1 m"), ("2 m * 3 s", "6 m·s"), ("6 m / 3 s", "2 m/s"),
             ("!1", "TC"), ("-true", "TC"), ("(2 m)^2", "4 m²"), ("2^(1 m)", "TC"), ("true && 1", "TC"), ("1 == true", "TC"), ("1 m == 1 s", "TC"), ("1 m == 100 cm", "true"),
             ("(1 m)!", "TC"), ("3!", "6"), ("[0, 0 + 1 s, 1 m]", "TC"), ("fn vx_wm(x, y) = [x, y, 1 m]\nvx_wm(2 m, 3 s)", "TC"), ("(2 m)^0 + 1", "2"), ("1 - (5 s)^(3 - 3)", "0"), ("let vx_one: Scalar = (3 s)^0\nvx_one", "1"), ("(2 m)^2 / (4 m^2) + 1", "2"), ("2 m * 3 m^-1 + 1", "7"), ("1 m - 1 kg", "TC"), ("1 m >= 2 kg", "TC"),
             # generic structs: the type arguments of `Name<B, A>` are substituted for the parameters simultaneously
             ("struct VxPair<A, B> { x: A, y: B }\nfn vx_swap<A, B>(p: VxPair<A, B>) -> VxPair<B, A> = VxPair { x: p.y, y: p.x }\nvx_swap(VxPair {x: 1 m, y: 2 s}).x + 1 s", "3 s"),
             ("struct VxPair<A, B> { x: A, y: B }\nfn vx_swap<A, B>(p: VxPair<A, B>) -> VxPair<B, A> = VxPair { x: p.y, y: p.x }\nvx_swap(VxPair {x: 1 m, y: 2 s}).x + 1 m", "TC"),
             ("struct VxPair<A, B> { x: A, y: B }\nfn vx_id<A, B>(p: VxPair<A, B>) -> VxPair<A, B> = p\nvx_id(VxPair {x: 1 m, y: 2 s}).y + 1 s", "3 s")]


def w_c02(seed):
    r = w_c06(seed, want_c02=True)
    if r.get("found"):
        return r
    for prog, want in C02_CASES:          # one fresh session per case (definitions must not leak between cases)
        got, raw = session([prog])
        res = got.get(0, [])
        if want == "TC":
            if not any(k == "ERR" and v.startswith("TypeCheckError") for k, v in res):
                return {"found": True, "kind": "session", "what": f"`{prog}` requires quantities / values of different type to be equal and must be rejected by the type checker, but: {res[:2]}", "input": prog, "output": str(res)[:400], "cmd": f"{BIN} session", "stdin": prog}
        else:
            vals = [v.strip() for k, v in res if k == "OK"]
            if want not in vals:
                return {"found": True, "kind": "session", "what": f"`{prog}` is dimensionally consistent and must evaluate to {want}, but: {res[:2]}", "input": prog, "output": str(res)[:400], "cmd": f"{BIN} session", "stdin": prog}
    return {"found": False, "note": f"{len(C02_CASES)} inputs are accepted / rejected as dimensional analysis prescribes; " + r.get("note", "")}


# ---------------------------------------------------------------- C08: inputs that must end with a result or a reported error
C08_INPUTS = ["30 mpg * 2 gallon", "1 swimmingpool / 1 footballfield", "sqrt(1 kg) * planck_mass", "print(30 mpg * 10 L)", '"{planck_length * sqrt(1 m)}"', "mod(0, 7 m)", "atan2(0, 1 m)", "mod(7 m, 0)", "mod(5 m, inf)", "atan2(1 m, inf)", "mod(7 m, 2 cm)", "atan2(1 m, 1 cm)", "mod(NaN, 1 m)", "atan2(NaN, 2 s)",
              "1 / 0", "(-1)!", "2.5!", "mod(7, 0)", "sqrt(-1)", "parse(\"\")" if False else "1 m + 2 s", "[] |> head", "element_at(5, [1])", "str_slice(5, 2, \"ab\")",
              "unit vx_foo: Length\nsin(vx_foo/m)", "unit vx_foo: Length\ngamma(vx_foo/m)", "unit vx_foo: Length\n(vx_foo/m)!", "unit vx_foo: Length\nround(vx_foo/m)", '"abc\\', '"x = {1}\\', 'let vx_p: Scalar = parse("\\"1\\\\")', ".5e", "1_", "1.5.2", "0x", ".", "..", "1e+", 
              "m^(-(-2^126*2))", "(2 m)^(-(2^127))", "meter^(0^-1)", "(2 second)^((1 - 1)^-2)", "meter^(2^-1)", "1e400", "2^1e10", "(2 m)^(1/0)", "10^400 m -> cm", "unit_of(0)", "value_of(inf m)"]


def w_c08(seed):
    for inp in C08_INPUTS:
        rc, out = drive(["session"], "use prelude\n%%\n" + inp)
        if rc != 0 or "panicked" in out:
            return {"found": True, "kind": "session", "what": f"`{inp}` crashes the interpreter (exit status {rc}): {out.strip().splitlines()[-1][:200] if out.strip() else ''}", "input": inp, "output": out[-600:], "cmd": f"{BIN} session", "stdin": "use prelude\n%%\n" + inp}
    return {"found": False, "note": f"{len(C08_INPUTS)} inputs with polymorphic literals, domain errors and extreme values end with a result or a reported error"}


FINDERS = {"C08": w_c08, "C09": w_c09, "C18": w_c18, "C06": w_c06, "C02": w_c02, "C11": w_c11, "C12": w_c12, "C21": w_c21, "C20": w_c20, "C10": w_c10, "C04": w_c04, "C05": w_c05, "C17": w_c17, "C07": w_c07}


def find(prop, obligation, tier):
    fn = FINDERS.get(prop)
    if fn is None:
        return {"found": False, "note": "no witness template for this property (compile/VM glue is not reachable through a small template)"}
    build_driver()
    seed = int(os.environ.get("VERIF_SEED", "0") or 0)
    return fn(seed)


def rerun(w):
    build_driver()
    args = w["cmd"].split()[1:]
    rc, out = drive(args, w.get("stdin", ""))
    return {"output": out, "reproduced": True if w.get("kind") != "listops" else (rc != 0 or "MISMATCH" in out)}


if __name__ == "__main__":
    import sys, json
    build_driver()
    for p in sys.argv[1:] or list(FINDERS):
        print(p, json.dumps(FINDERS[p](0))[:600])
