#!/usr/bin/env python3
"""seed_scan.py [label ...]  -  run every claimed check against every kept seeded change, WITHOUT touching /repo:
each patch is applied to a scratch copy of numbat/src + numbat-cli/src (VERIF_REPO), and the checks come from a
snapshot of the COMMITTED /verif (so edits in progress do not disturb the result). Prints one line per seed.
The official record in seeded/<id>/meta.json is written by keep_seed.py (patch applied to /repo itself)."""
import json, os, re, shutil, subprocess, sys, tempfile
from concurrent.futures import ThreadPoolExecutor

ROOT = os.path.dirname(os.path.dirname(os.path.abspath(__file__)))
labels = sys.argv[1:] or sorted(os.listdir(os.path.join(ROOT, "seeded")))
snap = tempfile.mkdtemp(prefix="vx-snap-", dir="/tmp")
subprocess.run(f"git -C {ROOT} archive HEAD | tar -x -C {snap}", shell=True, check=True)
props = sorted(json.load(open(os.path.join(snap, "contracts", "props.json"))))


def one(label):
    d = os.path.join(ROOT, "seeded", label)
    patch = os.path.join(d, "patch.diff")
    if not os.path.exists(patch):
        return label, None
    tmp = tempfile.mkdtemp(prefix="vx-seed-", dir="/tmp")
    try:
        subprocess.run(f"git -C /repo archive HEAD numbat/src numbat-cli/src | tar -x -C {tmp}", shell=True, check=True)
        r = subprocess.run(["patch", "-p1", "-s", "-i", patch], cwd=tmp, stdout=subprocess.PIPE, stderr=subprocess.STDOUT, text=True)
        if r.returncode != 0:
            return label, "patch does not apply"
        own = label[:3]
        res = {}
        for p in props:
            env = dict(os.environ, VERIF_REPO=tmp, VERIF_OUT=os.path.join(tmp, "out"))
            c = subprocess.run([os.path.join(snap, "check"), p], env=env, stdout=subprocess.PIPE, stderr=subprocess.STDOUT, text=True)
            first = [l for l in c.stdout.split("\n") if l.startswith(("VIOLATION", "UNDECIDED"))][:1]
            res[p] = (c.returncode, re.sub(r"replay=\S+ ", "", first[0])[:170] if first else "")
        return label, (own, res)
    finally:
        shutil.rmtree(tmp, ignore_errors=True)


with ThreadPoolExecutor(max_workers=4) as ex:
    for label, r in ex.map(one, labels):
        if r is None or isinstance(r, str):
            print(label, r)
            continue
        own, res = r
        det = [p for p, (rc, _) in res.items() if rc == 1]
        und = [p for p, (rc, _) in res.items() if rc == 2]
        o = res.get(own)
        print(f"{label}: own={own}:{'not claimed' if o is None else {0: 'OK(missed)', 1: 'VIOLATION', 2: 'UNDECIDED'}[o[0]]} detected_by={det} undecided={und}"
              + (f"  | {o[1]}" if o and o[1] else ""))
shutil.rmtree(snap, ignore_errors=True)
