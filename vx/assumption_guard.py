#!/usr/bin/env python3
"""Assumption guard for C06 (NOT a proof step): the frame argument of C06 assumes that cloning a session component
yields an INDEPENDENT deep copy and that no session state lives outside `Context`. That assumption is supported by
the absence of shared-mutable constructs in numbat/src beyond the audited list below (immutable tables behind
OnceLock, the exchange-rate cache that is explicitly outside the claim, a local Arc<Mutex> in help.rs).
A NEW occurrence means the assumption is no longer supported by this audit: the check answers UNDECIDED (exit 2)
instead of passing on an unsupported assumption. It never reports a VIOLATION."""
import os, re

PAT = re.compile(r"\b(Mutex|RwLock|RefCell|Cell<|static\s+mut|thread_local!|lazy_static|OnceLock|OnceCell|Atomic(?:U|I|B)\w*|Rc<)")
# audited on the unchanged tree: file -> number of LINES that match
AUDITED = {
    "numbat/src/help.rs": 2,            # Arc<Mutex<Vec<Markup>>> local to a function: collects printed output of the help examples
    "numbat/src/prefix_parser.rs": 2,   # static PREFIXES: OnceLock<Vec<...>> - immutable table
    "numbat/src/tokenizer.rs": 2,       # static KEYWORDS: OnceLock<HashMap<...>> - immutable table
    "numbat/src/currency.rs": 8,        # EXCHANGE_RATES cache: global, explicitly outside the C06 claim
    "numbat/src/ffi/functions.rs": 2,   # static FFI_FUNCTIONS: OnceLock<HashMap<...>> - immutable table
    "numbat/src/ffi/procedures.rs": 2,  # static FFI_PROCEDURES: OnceLock<HashMap<...>> - immutable table
}


def scan(repo):
    import sys
    sys.path.insert(0, os.path.dirname(os.path.abspath(__file__)))
    from extract import mask_rust
    found = {}
    root = os.path.join(repo, "numbat", "src")
    for dp, _, fs in os.walk(root):
        for f in fs:
            if not f.endswith(".rs"):
                continue
            p = os.path.join(dp, f)
            rel = os.path.relpath(p, repo)
            text = open(p, encoding="utf-8").read()
            mask = mask_rust(text)
            # drop #[cfg(test)] modules
            m = re.search(r"#\[cfg\(test\)\]\s*(pub\s+)?mod\s+\w+\s*\{", mask)
            if m:
                mask = mask[:m.start()]
            lines = [i + 1 for i, ln in enumerate(mask.split("\n")) if PAT.search(ln)]
            if lines:
                found[rel] = lines
    return found


def check(repo):
    """returns list of human-readable problems (empty = assumption still supported by the audit)"""
    found = scan(repo)
    problems = []
    for rel, lines in sorted(found.items()):
        if len(lines) > AUDITED.get(rel, 0):
            problems.append(f"{rel}: {len(lines)} line(s) with shared-mutable / global-state constructs (audited: {AUDITED.get(rel, 0)}) at lines {lines[:8]}")
    return problems


if __name__ == "__main__":
    import sys
    print(check(sys.argv[1] if len(sys.argv) > 1 else "/repo") or "assumption supported")
