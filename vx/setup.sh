#!/bin/sh
# MANIFEST.setup_cmd: offline, from files on disk only. Quick checks need python3 + verus only.
# The witness driver (replay of findings on the real crate) is built here so a violation can be confirmed
# with a concrete input; its absence never changes a verdict.
set -u
cd /verif
mkdir -p .build evidence replay
command -v verus >/dev/null || { echo "verus not on PATH"; exit 1; }
if [ -d driver ]; then
  cp /repo/Cargo.lock driver/Cargo.lock 2>/dev/null
  (cd driver && CARGO_NET_OFFLINE=true CARGO_TARGET_DIR=/verif/.build/driver-target cargo build --offline --release >/verif/.build/driver-build.log 2>&1) \
    || echo "note: witness driver did not build (see .build/driver-build.log); checks still decide, replay falls back to no-failing-input-found"
fi
exit 0
