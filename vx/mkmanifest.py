#!/usr/bin/env python3
"""Regenerates /verif/MANIFEST.json from contracts/props.json + the tables below (keeps it schema-valid)."""
import json, os, subprocess
ROOT = os.path.dirname(os.path.dirname(os.path.abspath(__file__)))
props = json.load(open(os.path.join(ROOT, "contracts", "props.json")))

NA = {
 "C01": "soundness is a meta-theorem over typing derivations x VM runs; the per-operator lemmas live in Product/Unit/DType iterator code neither Verus nor Kani can process; the known exponent mismatch is a cross-phase disagreement no single-function postcondition expresses (DESIGN 5)",
 "C03": "numerical-accuracy claim ('up to floating-point rounding') over Product/Unit iterator code: Verus cannot state an f64 tolerance or take the code, Kani cannot run it (>25 min for one same-unit addition) (DESIGN 5)",
 "C13": "quantifies over the loaded prelude (a finite configuration that must be executed); PrefixParser is &str suffix logic over an IndexMap, outside Verus (DESIGN 5)",
 "C14": "digit generation, rounding and grouping are pretty_dtoa / num_format; numbat contributes a branch and string trimming (DESIGN 5)",
 "C15": "pretty-printer <-> parser round trip over the whole AST (strings, decorators, generics): a language-level theorem, not a function contract (DESIGN 5)",
 "C16": "principal-type claim about HM-style inference with Gaussian elimination (DESIGN 5)",
 "C19": "date arithmetic, time zones and parsing are jiff's; numbat's part is an expression inline in the 500-line VM loop (DESIGN 5)",
 "C23": "the inverse pairs are written in Numbat (.nbt) or are libm / jiff calls (DESIGN 5)",
 "C24": "finite configuration that must be executed (DESIGN 5)",
}
PENDING = "check under construction in this session (planned as claimed, DESIGN 1); listed here until its check is committed"

TEXT = {
 "C18": ("proof", "4.1", "Verus proves, for all inputs and with no bound, a representation invariant and an abstract-sequence postcondition over the WHOLE view for every NumbatList operation (len, is_empty, new, with_capacity, tail, iter, make_mut, head, push_front, push_back, eq), on the function bodies extracted from /repo on every run. Sequences of operations follow by induction from the per-operation contracts; 'never changes another list' follows from make_mut's contract plus Rust ownership.",
         "contract-based deductive verification (Verus) of the real list.rs bodies: rep invariant + abstract Seq view"),
 "C06": ("proof", "4.2", "Verus proves the frame postcondition 'Err => the four session component views are those on entry' on the real Context::interpret_with_settings (whole body incl. the on-demand currency block), with every callee modelled as havoc on its receiver. 'All histories' reduces to one call by induction over the history.",
         "contract-based deductive verification (Verus): frame postcondition on the real interpret_with_settings"),
 "C02": ("other", "4.2 / 4.14 / 4.18 / 4.20 / 4.21", "PARTIAL (three clauses). (1) A rejected input is rejected as a whole before any statement runs (prints nothing, interpreter untouched): postcondition of the real interpret_with_settings. (2) Constraint GENERATION and the store: Verus proves on the real type-checker text that a constraint is dropped only when it holds outright (two closed types that differ are refuted on the spot: Constraint::try_trivial_resolution against a spec function), that ConstraintSet::add keeps every constraint that is not trivially satisfied, and that addition / subtraction / conversion / ordering comparisons (the closure get_type_and_assert_equal_dtypes), == and !=, && and ||, unary minus / factorial / !, if-then-else and annotated definitions (_elaborate_inner) each demand exactly the equations the statement lists (equal operand types, Bool conditions, equal branches, annotated = deduced) or fail at once, that the type reported for a product / quotient / power (compile-time exponent) of closed dimension types is the product / quotient / power of the operand types (DType arithmetic uninterpreted THERE), and that exactly the literals 0, inf and NaN are dimension-polymorphic. (3) The dimension algebra itself (unit dtype, real bodies of DType::try_canonicalize - merge loop included -, from_factors, multiply, divide, power, inverse and their try_ variants): the result is in canonical form (sorted, each factor once, no zero exponent - what makes structural equality of types mean equal dimension) and denotes the product / quotient / power of the operands (exponent sums in Verus' real arithmetic); applying a substitution to a dimension type (impl ApplySubstitution for DType, real body) replaces every factor by its image raised to the factor's power; two genuine findings are recorded there (exponent overflow panics the type checker); the Negate and BinaryOperator arms of evaluate_const_expr compute exponents exactly or report an overflow (unit consteval). Added last to (2): the loops / blocks that constrain list elements, function-call arguments, the declared return type against the body, struct fields, and the type of a field access of a closed struct. NOT covered: solving the constraints (ConstraintSet::solve, Gaussian elimination over exponents), the dispatch on the operator inside the BinaryOperator arm, instantiation of generic functions and structs (fresh variables, substitution), the missing-fields check, and that the reported type equals dimensional analysis beyond closed types.",
         "contract-based deductive verification (Verus): postcondition on interpret_with_settings; arm- and block-level extraction of the real elaborate_expression arms and of the constraint store against spec predicates over an abstract constraint log"),
 "C11": ("proof", "4.3", "Verus proves the real Quantity::{values_in_common_unit, eq, partial_cmp, partial_cmp_preserve_nan} and Unit::smaller_unit equal to spec functions written from the statement; symmetry of ==, antisymmetry of the ordering, NaN => NanOperand and trichotomy are Verus lemmas over those specs, using only IEEE-754 axioms that Kani proves on the real Number impls over all f64 bit patterns (thorough tier).",
         "contract-based deductive verification (Verus contracts + lemmas; Kani for the IEEE axioms on the real Number impls)"),
 "C12": ("proof", "4.3", "Verus proves the real impl Add/Sub for &Quantity, Neg for Quantity and Unit::smaller_unit equal to add_spec/sub_spec; commutation / anti-commutation (same value in the same unit when sizes differ and not both zero; both zero => zero) are Verus lemmas over those specs with Kani-proved IEEE axioms.",
         "contract-based deductive verification (Verus contracts + lemmas; Kani for the IEEE axioms on the real Number impls)"),
 "C21": ("proof", "4.4", "Verus proves the real ffi::procedures::{assert, assert_eq} (2- and 3-argument forms) against the predicates of the statement: Continue iff the documented predicate holds, Break with the matching error otherwise; and the VM arm that calls a procedure (extracted at arm level): Break makes the run loop return an error, so no later statement of the input runs. The Quantity == / <= the predicates bottom out in are the verified ones of unit quantity.",
         "contract-based deductive verification (Verus) of the real assert / assert_eq bodies against spec predicates"),
 "C20": ("proof", "4.5", "Verus proves a taint-style contract on the real html_formatter.rs: every byte appended to HTML output is renderer-owned markup or came out of html_escape::encode_text.",
         "contract-based deductive verification (Verus): escaping/taint contract on HtmlFormatter::format_part and HtmlWriter::write"),
 "C04": ("other", "4.9", "PARTIAL (structural clauses): Verus proves on the real Quantity::convert_to (its common-factor loop abstracted by havoc, rule R13), no_simplify, with_conversion_target and the ConvertTo case of the VM's arithmetic arm that `q -> U` is carried in exactly the unit U, is marked never-to-be-simplified, keeps the conversion target for display iff the target's magnitude is not 1, keeps the magnitude when the units are equal or q is zero, and fails with IncompatibleUnits(own, target) otherwise. 'Same physical quantity within tolerance', round trips and transitivity are NOT covered: f64 accuracy over iterator code is outside both tools.",
         "contract-based deductive verification (Verus) of the real convert_to / no_simplify / with_conversion_target / ConvertTo arm; loop abstracted by havoc"),
 "C05": ("other", "4.9 / 4.15", "PARTIAL (two clauses): Verus proves (1) that full_simplify and full_simplify_with_registry return a value marked by an explicit conversion unchanged (the marking itself is proved for the ConvertTo arm), and (2) on the WHOLE real body of full_simplify_with_registry that whatever it returns is the heuristically simplified value itself or the result of convert_to applied to it for some unit - the registry branch never just relabels the unit. That convert_to preserves the physical magnitude, the heuristics of full_simplify and preservation of the dimension are NOT covered.",
         "contract-based deductive verification (Verus): can_simplify guards of the real full_simplify / full_simplify_with_registry (tails abstracted); provenance postcondition + loop invariant on the whole real full_simplify_with_registry with convert_to / full_simplify abstract"),
 "C10": ("other", "4.10 / 4.16 / 4.17 / 4.19", "PARTIAL: Verus proves for all token sequences that every precedence-level function of the real recursive-descent parser (postfix_apply, condition .. unicode_power, the generic parse_binop with its closures), call (argument lists, field access), arguments, identifier and the parenthesised / list / struct branches of primary return exactly the tree that the documented grammar prescribes for the tokens they consumed (one recursive spec relation g written from book/src/basics/operations.md), and that each level consumes the LONGEST derivation (after a level returns, the next token cannot continue it); the one-token primaries NaN / inf / ? / true / false; the run-time quantity-literal parser (parse_quantity_ast accepts exactly <number> [<unit>] and negations); and that no documented operator character (incl. the Unicode spellings ≤ ≥ ≠ → − ...) can be part of an identifier (character classes of the tokenizer; the fact about unicode_ident's tables is Kani-checked in the thorough tier). Decimal number literals (unit toknum: the real consume_stream_of_digits, scientific_notation, match_char and the two number arms of scan_single_token accept exactly the documented notation - integer with separators, floating point with or without leading zero, scientific - and take the longest match; consume_string never advances past the end of the input; the identifier arm consumes exactly the maximal run of identifier-continue characters (the scanner side of the tokchars argument); the cursor primitives peek / advance are assumed). String literals, interpolation, base-prefixed integers, statements, the rest of the tokenizer and completeness of acceptance are not covered.",
         "contract-based deductive verification (Verus) of the real parser functions against a recursive grammar relation; higher-order contracts (call_requires / call_ensures) for parse_binop's closures; block-level extraction of branches of primary; arm-level extraction of the tokenizer's number arms against a recursive longest-match recogniser"),
 "C22": ("other", "4.11", "PARTIAL (exit-status logic): Verus proves that the input loop of the real Cli::run returns Ok iff no evaluated input asked to stop (and then has evaluated all of them), that every error arm of parse_and_evaluate maps to exit_status_in_case_of_error, and that this is Break(Error) in normal mode. Stream routing, printing, `-e` joining, process::exit in main and the REPL are not covered.",
         "contract-based deductive verification (Verus) of the real run loop (statement-level extraction), the error arms of parse_and_evaluate (arm-level) and exit_status_in_case_of_error"),
 "C17": ("other", "4.12", "PARTIAL (de-duplication clause): Verus proves on the real Resolver::inlining_pass that importing an already imported module changes nothing (no module is read, the import list is unchanged, the program is inlined to exactly its non-import statements in order), that the import list only grows, that a module is registered before its own imports are inlined, and that UnknownModule names a module the importer does not know. Success of every standard-library import and order-independence of the resulting definitions are not covered.",
         "contract-based deductive verification (Verus) of the real inlining_pass (loop invariant over the statement list) and resolve"),
 "C07": ("other", "4.8 / 4.13", "PARTIAL (two mechanisms): Verus proves that the real SessionHistory::save_inner writes exactly the successful inputs, one line each, in order (so a replay of the saved file replays exactly those), and that the last-result identifiers denote the value of the most recent top-level expression statement regardless of how statements are grouped into inputs (Return / GetLastResult arms of the VM). Agreement of incremental, batched and replayed sessions in general, and independence of a copied session, are not covered.",
         "contract-based deductive verification (Verus) of the real save_inner (loop invariant against a recursive spec function) and of the VM's last-result arms"),
 "C09": ("other", "4.6 / 4.8", "PARTIAL: Verus proves (i) layout and little-endian round-trip contracts on the real Vm::{push_u16, add_op*, patch_u16_value_at, read_byte, read_u16}; (ii) per-arm layout contracts for 14 arms of compile_expression (identifier resolution = innermost binding, operator mapping and operand order, conditionals with their two jumps, lists / call arguments / struct fields / string parts in source resp. definition order, calls, function values, field access, constants) and the DefineFunction / expression-statement / procedure-call arms of compile_statement plus compile_define_variable (scope = parameters ++ where-variables while the body is compiled); (iii) whole-stack postconditions for about 20 arms of the VM run loop (jumps, logic, comparison, arithmetic, variables and upvalues, last result, constants, calls and returns, calls through function values, struct construction and field access, list literals, marshalling of foreign-call arguments, procedure calls) plus lemmas tying (ii) and (iii) together; (iv) BytecodeInterpreter::run touches the VM only through Vm::run. Not covered: unit-identifier / unit-definition arms, JoinString, Power / Factorial / date-time arms and the result handling of foreign FUNCTION calls, the dispatch loop itself; compile_expression at its recursive call sites is an assumed contract.",
         "contract-based deductive verification (Verus): arm-level extraction of the real compiler and VM match arms, layout/stack postconditions and lemmas"),
 "C08": ("other", "5", "PARTIAL: panic-freedom of every function under contract in all units (arithmetic overflow, indexing, unwrap/expect, unreachable!, assert!/debug_assert! become Verus obligations under the stated preconditions), including the run-time quantity-literal parser parse_quantity_ast. NOT the whole pipeline: most of the tokenizer (number literals are covered), statement parser, most of the type checker, Product/Unit arithmetic (DType's is covered: two open findings), diagnostics rendering and promptness/termination are outside; of the crashes named in the statement only those inside functions under contract are detected.",
         "contract-based deductive verification (Verus): safety obligations of all extracted bodies"),
}

checks = []
for pid in sorted(props):
    cat, ref, text, tech = TEXT[pid]
    cfg = props[pid]
    checks.append({
        "property_id": pid,
        "quick_cmd": f"./check {pid} --tier quick",
        "thorough_cmd": f"./check {pid} --tier thorough",
        "evidence_file": f"/verif/evidence/{pid}.json",
        "replay_cmd_template": f"./check {pid} --replay {{path}}",
        "engine": "vx",
        "level_claimed": {"category": cat, "text": text, "design_ref": f"DESIGN.md section {ref}"},
        "level_note": " | ".join(cfg.get("assumptions", [])),
        "technique": tech,
    })
na = [{"property_id": k, "reason": v} for k, v in NA.items()]
for pid in TEXT:
    if pid not in props:
        na.append({"property_id": pid, "reason": PENDING})
na.sort(key=lambda x: x["property_id"])
hook_commits = subprocess.run(["git", "-C", "/repo", "log", "--format=%h", "--grep=^verif hook"], stdout=subprocess.PIPE, text=True).stdout.split()
m = {
 "version": 1,
 "setup_cmd": "sh /verif/vx/setup.sh",
 "hooks": {
  "guard": "cfg(kani)",
  "enable": "set only by the Kani compiler: `cd /repo/numbat && CARGO_NET_OFFLINE=true cargo kani --no-default-features --harness ieee_...` (thorough tier). Verus checks read /repo sources directly and need no hook.",
  "baseline_off_cmd": "cd /repo && cargo test --workspace --no-fail-fast --offline",
  "source_commits": hook_commits,
  "add_only": True,
 },
 "engines": [
  {"name": "vx", "path": "/verif/vx", "serves_properties": sorted(props), "kind_free_text": "mechanical extractor of real function bodies + contract splicer (vx/extract.py), Verus runner and obligation mapper (vx/run.py), Kani runner for IEEE axioms (vx/kani_run.py), witness replay through /verif/driver"},
 ],
 "checks": checks,
 "not_applicable": na,
 "notes": "One family of technique only: contracts on the real code discharged by Verus (unbounded) and Kani (complete loop-free harnesses over all f64). exit 0 = all obligations discharged; exit 1 = VIOLATION (a named obligation fails as a verification error); exit 2 = UNDECIDED (anchor lost / construct outside the Verus subset / rlimit / vacuity guard) and is never an alarm. Genuine defects found and repaired are listed as fixed: in /verif/known_findings.json.",
}
json.dump(m, open(os.path.join(ROOT, "MANIFEST.json"), "w"), indent=1)
print("MANIFEST.json written:", len(checks), "checks,", len(na), "not applicable")
