#!/usr/bin/env python3
"""./check <Cxx> [--tier quick|thorough] [--replay <path>] [--keep]

Decides one property by contract-based deductive verification of the real code (DESIGN.md 3):
extract the functions under contract from /repo's current working tree, run Verus on the generated
single file, map every verifier diagnostic back to a named obligation, run the vacuity canaries,
scan the trusted base, write evidence/<id>.json.

exit 0  every obligation of the property discharged (KNOWN-FINDING lines for listed genuine defects)
exit 1  VIOLATION property=<id> replay=<path> ...   an obligation fails as a *verification* error
exit 2  UNDECIDED reason=...                          anchor lost / front-end error / rlimit / vacuous
"""
import hashlib
import json
import os
import re
import shutil
import subprocess
import sys
import time

HERE = os.path.dirname(os.path.abspath(__file__))
ROOT = os.path.dirname(HERE)
sys.path.insert(0, HERE)
import extract  # noqa: E402
from extract import AnchorLost  # noqa: E402

BUILD = os.path.join(ROOT, ".build")
VERUS = shutil.which("verus") or "/usr/local/bin/verus"

VERIF_KINDS = [
    ("postcondition not satisfied", "postcondition"),
    ("precondition not satisfied", "precondition"),
    ("assertion failed", "assertion"),
    ("possible arithmetic underflow/overflow", "overflow"),
    ("possible division by zero", "div0"),
    ("invariant not satisfied before loop", "invariant_entry"),
    ("invariant not satisfied at end of loop body", "invariant_step"),
    ("loop invariant not satisfied", "invariant_step"),
    ("decreases not satisfied", "decreases"),
    ("could not prove termination", "decreases"),
    ("unreachable", "unreached"),
    ("possible bit shift underflow/overflow", "overflow"),
    ("cannot show invariant holds", "invariant_step"),
    ("unable to prove post-condition of closure", "postcondition"),
    ("unable to prove", "assertion"),
    ("bitvector assertion not satisfied", "assertion"),
    ("cannot show invariant holds", "invariant_step"),
    ("recommendation not met", None),
]
SAFETY_KINDS = {"precondition", "assertion", "overflow", "div0", "unreached"}
RLIMIT_PAT = re.compile(r"rlimit|Resource limit|timed out|solver run out", re.I)


def sh(cmd, **kw):
    return subprocess.run(cmd, stdout=subprocess.PIPE, stderr=subprocess.PIPE, text=True, **kw)


def load_json(path, default=None):
    try:
        with open(path) as f:
            return json.load(f)
    except FileNotFoundError:
        return default


# ------------------------------------------------------------------------------------------------
def run_verus(path, multiple_errors, rlimit=None, timeout=600):
    cmd = [VERUS, "--edition=2024", os.path.basename(path), "--output-json", "--time-expanded",
           "--error-format=json", "--multiple-errors", str(multiple_errors), "--num-threads", "4"]
    if rlimit:
        cmd += ["--rlimit", str(rlimit)]
    t0 = time.time()
    try:
        p = sh(cmd, cwd=os.path.dirname(path), timeout=timeout)
    except subprocess.TimeoutExpired:
        return {"cmd": " ".join(cmd), "timeout": True, "wall": time.time() - t0, "diags": [], "json": None, "rc": -1, "stderr": ""}
    diags = []
    for ln in p.stderr.split("\n"):
        ln = ln.strip()
        if ln.startswith("{"):
            try:
                diags.append(json.loads(ln))
            except json.JSONDecodeError:
                pass
    out = None
    try:
        out = json.loads(p.stdout)
    except json.JSONDecodeError:
        pass
    return {"cmd": " ".join(cmd), "timeout": False, "wall": time.time() - t0, "diags": diags, "json": out,
            "rc": p.returncode, "stderr": p.stderr}


def classify(diag):
    msg = diag.get("message", "").lower()
    for pat, kind in VERIF_KINDS:
        if pat.lower() in msg:
            return kind
    return "frontend"


def func_breakdown(vjson):
    res = {}
    if not vjson:
        return res
    for mod in vjson.get("times-ms", {}).get("smt", {}).get("smt-run-module-times", []):
        for f in mod.get("function-breakdown", []):
            res.setdefault(f["function"], []).append(f)
    return res


class UnitResult:
    pass


MISSING_PATS = [re.compile(r"no method named `(\w+)` found"), re.compile(r"no function or associated item named `(\w+)` found"),
                re.compile(r"cannot find function `(\w+)`"), re.compile(r"no associated function or constant named `(\w+)` found")]


def analyse_unit(unit, gen_dir, tier, canary=False):
    """generate + run verus on one unit. If the front end only misses functions that exist in /repo (a helper an
    extracted body calls, typically introduced by a change), they are auto-included without contract and the run
    is repeated (at most 3 rounds)."""
    extra = []
    dropped = set()
    ur = None
    for _round in range(9):
        ur = _analyse_unit(unit, gen_dir, tier, canary, tuple(extra), tuple(sorted(dropped)))
        if not ur.frontend_errors or _round == 8:
            break
        # an auto-included helper whose own BODY does not compile in the unit (it calls further functions the unit does not have,
        # or uses constructs outside the subset) is made opaque first - its callees are then not needed at all
        bad0 = set()
        for ln in getattr(ur, "frontend_lines", []):
            for f in ur.gen.functions:
                if f["gen_start"] <= ln <= f["gen_end"] and any(e[2] == f["name"] and not (len(e) > 4 and e[4]) for e in extra):
                    bad0.add(f["name"])
        if bad0:
            extra = [(e[0], e[1], e[2], e[3], True) if e[2] in bad0 else e for e in extra]
            continue
        names = set()
        for fe in ur.frontend_errors:
            for pat in MISSING_PATS:
                names.update(pat.findall(fe))
        added = False
        files = sorted({f["file"] for f in ur.gen.functions})
        # then every other source file of the two crates (a helper added to another module, e.g. a new method of a type that
        # this unit keeps abstract); the unit's own files come first
        others = []
        for sub in ("numbat/src", "numbat-cli/src"):
            for dp, _dn, fns in os.walk(os.path.join(extract.REPO, sub)):
                for fn_ in sorted(fns):
                    rel_ = os.path.relpath(os.path.join(dp, fn_), extract.REPO)
                    if fn_.endswith(".rs") and rel_ not in files:
                        others.append(rel_)
        files = files + sorted(others)
        # receiver types named by the "no method named .. found for .. `T`" errors: outside the unit's own files a method is
        # only taken from an impl of THAT type (a `len` of some other type is not the missing `len`)
        recv = {}
        for fe in ur.frontend_errors:
            mrecv = re.search(r"no method named `(\w+)` found for (?:\w+ )*`&*(?:mut )?([A-Za-z_]\w*)", fe)
            if mrecv:
                recv.setdefault(mrecv.group(1), set()).add(mrecv.group(2))
        own_files = {f["file"] for f in ur.gen.functions}
        for name in sorted(names):
            if any(e[2] == name for e in extra):
                continue
            for rel in files:
                try:
                    src = extract.Source(rel)
                    hit = src.find_helper(name)
                except AnchorLost:
                    hit = None
                if hit and rel not in own_files and name in recv and not any(re.search(r"\b" + re.escape(t_) + r"\b", hit[0]) for t_ in recv[name]):
                    hit = None
                if hit:
                    props = sorted({p for f in ur.gen.functions if f["file"] == rel for p in f["props"]}) or sorted({p for f in ur.gen.functions for p in f["props"]})
                    extra.append((rel, hit[0], name, props))
                    added = True
                    break
        if not added:
            # helpers whose BODY the front end rejects (iterator chains, ...) are kept opaque: signature only, result
            # arbitrary; a caller whose proof then fails is `helper-without-contract` (undecided), never a violation
            bad = set()
            for ln in getattr(ur, "frontend_lines", []):
                for f in ur.gen.functions:
                    if f["gen_start"] <= ln <= f["gen_end"] and any(e[2] == f["name"] and not (len(e) > 4 and e[4]) for e in extra):
                        bad.add(f["name"])
            if not bad:
                # a compile error inside a function under contract may come from its PROOF ANNOTATIONS (a hint or an invariant
                # that names a local the changed body no longer has): verify that function without them. If the error was
                # the body's own, it stays (frontend => undecided); if not, the function's failures read `hint-lost`
                stale = set()
                for ln in getattr(ur, "frontend_lines", []):
                    for f in ur.gen.functions:
                        if f["gen_start"] <= ln <= f["gen_end"] and f.get("annotated") and f["name"] not in dropped:
                            stale.add(f["name"])
                if not stale:
                    break
                dropped |= stale
                continue
            extra = [(e[0], e[1], e[2], e[3], True) if e[2] in bad else e for e in extra]
    ur.auto_included = [f"{e[0]}::{e[2]}" for e in extra]
    ur.opaque_helpers = [e[2] for e in extra if len(e) > 4 and e[4]]
    return ur


def _analyse_unit(unit, gen_dir, tier, canary=False, extra_fns=(), drop_hints=()):
    """generate + run verus on one unit; returns UnitResult"""
    tp = os.path.join(ROOT, "contracts", unit + ".vx")
    g = extract.generate(unit, tp, canary=canary, extra_fns=extra_fns, drop_hints=drop_hints)
    name = unit + ("_canary" if canary else "")
    path = os.path.join(gen_dir, name + ".rs")
    text = "\n".join(g.lines)
    with open(path, "w") as f:
        f.write(text)
    # loop annotations (invariants, ghost updates at loop start / end) were written for a particular loop STRUCTURE of each function;
    # contracts/loopforms.json records it (keywords in textual order, generated from the unchanged tree by vx/mkloopforms.py). If
    # the structure differs now (`while c {..}` became `loop { if !c { break } .. }`, a loop was added or removed) the annotations
    # may no longer mean what they meant: a failing obligation of that function is then `hint-lost` (undecided), never VIOLATION
    base = load_json(os.path.join(ROOT, "contracts", "loopforms.json"), {})
    for f in g.functions:
        want = base.get(f"{unit}::{f['name']}")
        if f.get("loop_annotated") and want is not None and want != f.get("loopform"):
            f["hint_lost"].append(f"R10: loop structure changed (annotated for {want}, found {f.get('loopform')})")
    me = 20 if tier == "thorough" else 10
    r = run_verus(path, me)
    ur = UnitResult()
    ur.unit, ur.gen, ur.path, ur.run, ur.text = unit, g, path, r, text
    ur.frontend_errors, ur.rlimit_hits, ur.errors = [], [], []
    ur.frontend_lines = []
    if r["timeout"]:
        ur.rlimit_hits.append("verus timeout")
        return ur
    vr = (r["json"] or {}).get("verification-results", {})
    ur.vr = vr
    for d in r["diags"]:
        if d.get("level") != "error":
            continue
        msg = d.get("message", "")
        if msg.startswith("aborting due to"):
            continue
        if RLIMIT_PAT.search(msg):
            ur.rlimit_hits.append(msg)
            continue
        kind = classify(d)
        if kind is None:
            continue
        if kind == "frontend":
            ur.frontend_errors.append(d.get("rendered") or msg)
            for sp in d.get("spans", []) or []:
                if sp.get("is_primary") and sp.get("line_start"):
                    ur.frontend_lines.append(sp["line_start"])
            continue
        ur.errors.append(locate_error(g, d, kind))
    if r["json"] is None or not vr or vr.get("encountered-vir-error"):
        if not ur.frontend_errors:
            ur.frontend_errors.append("verus produced no verification result:\n" + r["stderr"][-2000:])
    ur.breakdown = func_breakdown(r["json"])
    return ur


def locate_error(g, d, kind):
    """map a verifier diagnostic to (function|lemma, clause id, repo location)"""
    spans = d.get("spans", [])
    prim = [s for s in spans if s.get("is_primary")]
    sec = [s for s in spans if not s.get("is_primary")]
    owner = None
    clause = None
    repo_loc = None
    callee_clause = None

    def owner_of(line):
        for f in g.functions:
            if f["gen_start"] <= line <= f["gen_end"]:
                return ("fn", f)
        for l in g.lemmas:
            if l["gen_start"] <= line <= l["gen_end"]:
                return ("lemma", l)
        return None

    def info(line):
        if 1 <= line <= len(g.linemap):
            return g.linemap[line - 1]
        return {}

    # order in which spans identify the *owner* (the function whose proof failed)
    if kind == "postcondition":
        order = sec + prim       # exit point is in the owner; the clause line too
    elif kind == "precondition":
        order = prim + sec       # call site (primary) is in the owner; secondary is the callee's requires
    else:
        order = prim + sec
    def call_sites(sp):
        """the span itself, then the call sites of the macro expansions it came from (`scalar_arg!(args)` inside `gamma`)"""
        out, cur, n = [sp], sp, 0
        while isinstance(cur.get("expansion"), dict) and isinstance(cur["expansion"].get("span"), dict) and n < 8:
            cur = cur["expansion"]["span"]
            out.append(cur)
            n += 1
        return out

    for s in order:
        for cs in call_sites(s):
            o = owner_of(cs["line_start"])
            if o:
                owner = o
                break
        if owner:
            break
    for s in spans:
        li = info(s["line_start"])
        if li.get("kind") == "clause":
            if kind == "precondition" and not s.get("is_primary"):
                callee_clause = li.get("id")
            elif clause is None:
                clause = li.get("id")
        if li.get("kind") == "repo" and repo_loc is None and s.get("label") != "failed this postcondition":
            o = owner_of(s["line_start"])
            if o and owner and o[1] is owner[1]:
                repo_loc = f"{li['file']}:{li['line']}"
    if kind == "precondition" and clause is None:
        clause = None
    # for precondition failures try the non-template location of the failed requires
    callee_text = None
    if kind == "precondition":
        for s in sec:
            if s.get("text"):
                callee_text = s["text"][0]["text"].strip()
    # does the failing assertion / call sit inside a `proof { .. }` block that the TEMPLATE inserted (rule R10)? Then it is a
    # step of the contract's proof, not a run-time check of the code: it belongs to the property's contract, not to "safety"
    in_proof = False
    if kind in ("assertion", "precondition") and prim:
        ln, col = prim[0].get("line_start"), prim[0].get("column_start")
        if ln and col and 1 <= ln <= len(g.lines):
            txt = g.lines[ln - 1]
            tm = extract.mask_rust(txt)
            for pm in re.finditer(r"\bproof\s*\{", tm):
                try:
                    close = extract.match_brace(tm, pm.end() - 1)
                except Exception:
                    close = len(tm)
                if pm.start() < col - 1 <= close:
                    in_proof = True
                    break
    return {"kind": kind, "in_proof": in_proof, "message": d.get("message"), "owner": owner, "clause": clause, "callee_clause": callee_clause,
            "callee_text": callee_text, "repo_loc": repo_loc, "rendered": d.get("rendered", ""),
            "labels": [s.get("label") for s in spans]}


# ------------------------------------------------------------------------------------------------
def obligations_for(g, prop, errors, breakdown, unit):
    """enumerate obligations of `prop` in this unit and mark them discharged / failed"""
    obs = []
    for f in g.functions:
        if prop not in f["props"]:
            continue
        ferrs = [e for e in errors if e["owner"] and e["owner"][0] == "fn" and e["owner"][1] is f]
        base = f"{unit}::{f['name']}"
        loc = f"{f['file']}:{f['repo_line']}"
        if prop != "C08":
            for c in f["clauses"]:
                if c["kind"] in ("requires", "recommends"):
                    continue
                if c.get("props") and prop not in c["props"]:
                    continue
                failed = [e for e in ferrs if e["clause"] == c["id"]]
                if c["kind"].startswith("loop_") and not failed:
                    failed = [e for e in ferrs if e["kind"].startswith("invariant") or e["kind"] == "decreases"]
                obs.append({"id": c["id"], "kind": c["kind"], "text": c["text"], "where": loc, "failed": failed, "fn": f})
        # one aggregated safety obligation (overflow, bounds, unwrap, unreached, callee preconditions) + R4 asserts
        sfail = [e for e in ferrs if e["kind"] in SAFETY_KINDS and not e.get("in_proof")]
        obs.append({"id": base + "::safety", "kind": "safety", "where": loc, "fn": f,
                    "text": f"no overflow / out-of-bounds / failed unwrap / unreachable / violated callee precondition in {f['name']} ({f['n_asserts']} source assertions included)",
                    "failed": sfail})
        # errors not attributed to any clause (e.g. postcondition whose clause line was not resolved)
        all_clause_ids = {c["id"] for c in f["clauses"]}
        other = [e for e in ferrs if (e["kind"] not in SAFETY_KINDS or e.get("in_proof")) and not any(e in o["failed"] for o in obs)
                 and e.get("clause") not in all_clause_ids]    # a clause tagged for another property is that property's business
        if other and prop != "C08":
            obs.append({"id": base + "::contract", "kind": "other", "where": loc, "fn": f, "text": "the function's contract as a whole: a proof step of the template (proof hint / lemma call) or an error not attributable to one clause fails", "failed": other})
    for l in g.lemmas:
        if prop not in l["props"]:
            continue
        lerrs = [e for e in errors if e["owner"] and e["owner"][0] == "lemma" and e["owner"][1] is l]
        obs.append({"id": f"{unit}::{l['name']}", "kind": "lemma", "where": f"contracts/{unit}.vx", "fn": None, "text": f"lemma {l['name']}", "failed": lerrs})
    return obs


def check_breakdown(g, breakdown, unit):
    """every function/lemma under contract must appear in Verus' function breakdown (non-zero obligations)"""
    missing = []
    names = {}
    for full in breakdown:
        names.setdefault(full.split("::")[-1], []).append(full)
    for f in g.functions:
        if f["name"] not in names and not f.get("opaque"):
            missing.append(f["name"])
    for l in g.lemmas:
        if l["name"] not in names:
            missing.append(l["name"])
    return missing


def solver_stats(g, breakdown):
    stats = {}
    for full, lst in breakdown.items():
        short = full.split("::")[-1]
        for e in lst:
            s = stats.setdefault(short, {"time_us": 0, "rlimit": 0, "success": True, "names": []})
            s["time_us"] += e.get("time-micros", 0)
            s["rlimit"] += e.get("rlimit", 0)
            s["success"] = s["success"] and e.get("success", False)
            if full not in s["names"]:
                s["names"].append(full)
    return stats


# ------------------------------------------------------------------------------------------------
def main(argv):
    if len(argv) < 2:
        print(__doc__)
        return 2
    prop = argv[1]
    tier = os.environ.get("VERIF_TIER", "quick")
    replay = None
    i = 2
    while i < len(argv):
        if argv[i] == "--tier":
            tier = argv[i + 1]
            i += 2
        elif argv[i] == "--replay":
            replay = argv[i + 1]
            i += 2
        else:
            i += 1
    if tier not in ("quick", "thorough"):
        tier = "quick"
    seed = int(os.environ.get("VERIF_SEED", "0") or 0)
    props = load_json(os.path.join(ROOT, "contracts", "props.json"))
    if prop not in props:
        print(f"UNDECIDED reason=property {prop} is not claimed (see MANIFEST not_applicable)")
        return 2
    cfg = props[prop]
    if replay:
        return do_replay(prop, replay)
    t0 = time.time()
    gen_dir = os.path.join(os.environ.get("VERIF_OUT", BUILD), "gen", prop)
    shutil.rmtree(gen_dir, ignore_errors=True)
    os.makedirs(gen_dir, exist_ok=True)
    out_root = os.environ.get("VERIF_OUT", ROOT)   # selftest redirects evidence/replay/gen away from /verif
    ev_path = os.path.join(out_root, "evidence", prop + ".json")
    os.makedirs(os.path.dirname(ev_path), exist_ok=True)
    known = load_json(os.path.join(ROOT, "known_findings.json"), {"findings": []})

    undecided = []
    all_obs = []
    unit_reports = []
    trusted = []
    rewrites = []
    functions = []
    canaries = []
    checker_cmds = []
    solver_us = 0
    # all Verus runs (normal + vacuity canary per unit) are independent: run them concurrently
    from concurrent.futures import ThreadPoolExecutor
    jobs = {}
    with ThreadPoolExecutor(max_workers=min(12, 2 * len(cfg["units"]))) as ex:
        for unit in cfg["units"]:
            for canary in (False, True):
                jobs[(unit, canary)] = ex.submit(analyse_unit, unit, gen_dir, tier, canary)
    for unit in cfg["units"]:
        try:
            ur = jobs[(unit, False)].result()
        except AnchorLost as e:
            undecided.append(f"anchor-lost unit={unit}: {e}")
            continue
        checker_cmds.append(f"(cd {os.path.dirname(ur.path)} && {ur.run['cmd']})")
        if ur.frontend_errors:
            undecided.append(f"frontend unit={unit}: " + ur.frontend_errors[0].strip().split("\n")[0][:300])
            with open(os.path.join(gen_dir, unit + ".frontend.txt"), "w") as f:
                f.write("\n\n".join(ur.frontend_errors))
            continue
        if ur.rlimit_hits:
            undecided.append(f"rlimit unit={unit}: " + ur.rlimit_hits[0][:200])
            continue
        missing = check_breakdown(ur.gen, ur.breakdown, unit)
        if missing:
            undecided.append(f"vacuous unit={unit}: no verifier query for {missing}")
            continue
        unowned = [e for e in ur.errors if not e.get("owner")]
        if unowned:
            # a verifier error that maps to NO function or lemma under contract must not vanish: the unit is undecided
            undecided.append(f"unattributed unit={unit}: verifier error outside every function under contract: " + (unowned[0].get("message") or "")[:200])
        obs = obligations_for(ur.gen, prop, ur.errors, ur.breakdown, unit)
        for o in obs:
            o["unit"] = unit
            o["ur"] = ur
        all_obs += obs
        stats = solver_stats(ur.gen, ur.breakdown)
        solver_us += sum(s["time_us"] for s in stats.values())
        for f in ur.gen.functions:
            if prop in f["props"]:
                st = stats.get(f["name"], {})
                functions.append({"unit": unit, "function": f["name"], "impl": f["impl"], "repo": f"{f['file']}:{f['repo_line']}-{f['repo_end_line']}",
                                  "body_sha256_16": f["hash"], "solver_time_us": st.get("time_us"), "rlimit": st.get("rlimit"),
                                  "contract_clauses": len(f["clauses"]), "source_assertions_as_obligations": f["n_asserts"]})
        for l in ur.gen.lemmas:
            if prop in l["props"]:
                st = stats.get(l["name"], {})
                functions.append({"unit": unit, "lemma": l["name"], "solver_time_us": st.get("time_us"), "rlimit": st.get("rlimit")})
        for (ln, pat, desc) in extract.scan_trusted(ur.text):
            li = ur.gen.linemap[ln - 1] if ln - 1 < len(ur.gen.linemap) else {}
            if li.get("kind") == "repo":
                undecided.append(f"assumption construct inside extracted body {li.get('file')}:{li.get('line')}: {desc}")
            trusted.append(f"[{unit}] {desc}")
        rewrites += [dict(r, unit=unit) for r in ur.gen.rewrites]
        # ---- vacuity canary: same unit, `assert(false)` inserted at the entry of every body => every function must FAIL
        try:
            cr = jobs[(unit, True)].result()
        except AnchorLost as e:
            undecided.append(f"anchor-lost (canary) unit={unit}: {e}")
            continue
        if cr.frontend_errors or cr.rlimit_hits:
            undecided.append(f"canary run not usable unit={unit}: " + (cr.frontend_errors + cr.rlimit_hits)[0].strip().split("\n")[0][:200])
            continue
        cstats = solver_stats(cr.gen, cr.breakdown)
        for f in cr.gen.functions:
            if prop not in f["props"] or f.get("opaque"):
                continue
            ok = f["name"] in cstats and not cstats[f["name"]]["success"]
            canaries.append({"unit": unit, "target": f["name"], "canary": "assert(false) at body entry must fail", "failed_as_required": ok})
            if not ok:
                undecided.append(f"vacuous unit={unit}: `assert(false)` at entry verifies for {f['name']} (contradictory precondition or axioms)")
        for l in cr.gen.lemmas:
            if prop not in l["props"]:
                continue
            ok = l["name"] in cstats and not cstats[l["name"]]["success"]
            canaries.append({"unit": unit, "target": l["name"], "canary": "assert(false) at body entry must fail", "failed_as_required": ok})
            if not ok:
                undecided.append(f"vacuous unit={unit}: `assert(false)` at entry verifies for lemma {l['name']}")
        unit_reports.append({"unit": unit, "auto_included_helpers": getattr(ur, "auto_included", []), "verified": ur.vr.get("verified"), "errors": ur.vr.get("errors"), "verus_wall_s": round(ur.run["wall"], 2),
                             "canary_verified": cr.vr.get("verified"), "canary_errors": cr.vr.get("errors")})

    # ---- thorough tier extras: proof stability and regression observations (neither decides the property) ----
    stability, observation = [], None
    if tier == "thorough" and not undecided:
        for unit in cfg["units"]:
            pth = os.path.join(gen_dir, unit + ".rs")
            if not os.path.exists(pth):
                continue
            r2 = run_verus(pth, 5, rlimit=3)          # default rlimit is 10: a proof that needs more than 30% of it is flagged
            hits = [d.get("message", "") for d in r2["diags"] if d.get("level") == "error" and RLIMIT_PAT.search(d.get("message", ""))]
            bd = func_breakdown(r2["json"])
            top = sorted(((sum(e.get("rlimit", 0) for e in lst), full) for full, lst in bd.items()), reverse=True)[:3]
            stability.append({"unit": unit, "rlimit_3_exceeded": hits[:5], "most_expensive": [{"function": f, "rlimit_units": rl} for rl, f in top]})
        try:
            import witness as wmod
            if prop in wmod.FINDERS:
                observation = wmod.find(prop, None, tier)
        except Exception as e:   # the driver is optional
            observation = {"found": False, "note": f"witness scenarios not run: {e}"}

    # ---- assumption guard (C06 only; never a violation) ----
    if cfg.get("assumption_guard") and not undecided:
        import assumption_guard
        probs = assumption_guard.check(extract.REPO)
        for pr_ in probs:
            undecided.append("assumption-unsupported (derived Clone of session components = independent deep copy; no session state outside Context): " + pr_)
        trusted.append("[guard] audit of shared-mutable constructs in numbat/src (vx/assumption_guard.py): " + ("unchanged" if not probs else "CHANGED"))

    # ---- extra engines (Kani) ----
    extra = {}
    if not undecided and cfg.get("kani") and (tier == "thorough" or cfg.get("kani_in_quick")):
        import kani_run
        kres = kani_run.run(cfg["kani"], prop, tier)
        extra["kani"] = kres["summary"]
        if kres.get("undecided"):
            undecided.append("kani: " + kres["undecided"])
        for o in kres["obligations"]:
            o["unit"] = "ieee"
            o["ur"] = None
        all_obs += kres["obligations"]
        checker_cmds += kres["cmds"]
        trusted += kres.get("trusted", [])
        solver_us += int(kres.get("solver_s", 0) * 1e6)

    # a failing obligation in a function whose PROOF HINTS (R10/R11 annotations) could not be placed is not evidence
    # of a violation: the proof may fail only for lack of the hint -> undecided
    _wcache = {}

    def reproduced_on_real_crate(o):
        """the property's concrete scenarios REPRODUCE a misbehaviour on the real crate (only on /repo itself): a replayed failing
        input is definitive even where the failed proof alone would only mean `undecided`"""
        if extract.REPO != "/repo":
            return None
        if "w" not in _wcache:
            try:
                import witness as wmod
                _wcache["w"] = wmod.find(prop, o, tier) if prop in wmod.FINDERS else None
            except Exception:
                _wcache["w"] = None
        w = _wcache["w"]
        return w if (w and w.get("found")) else None

    for o in all_obs:
        f = o.get("fn")
        if o["failed"] and f is not None and f.get("hint_lost"):
            w = reproduced_on_real_crate(o)
            if w:
                o["witness"] = w
                continue
            o["soft"] = True
            undecided.append(f"hint-lost unit={o.get('unit')}: {o['id']} fails, but proof annotations of {f['name']} could not be placed ({'; '.join(f['hint_lost'])[:200]})")
    # an auto-included helper has NO contract, in particular no precondition: when its own body fails an obligation (typically
    # a callee's precondition that the template would have supplied as the helper's `requires`) that means "needs contract"
    for o in all_obs:
        f, ur_ = o.get("fn"), o.get("ur")
        if o["failed"] and f is not None and ur_ is not None and any(h.split("::")[-1] == f["name"] for h in getattr(ur_, "auto_included", []) or []):
            o["soft"] = True
            undecided.append(f"helper-without-contract unit={o.get('unit')}: {o['id']} fails inside the auto-included helper {f['name']}, which has no contract (no precondition to rely on)")
    # a failing obligation in a function that CALLS a helper which was auto-included without contract (its result is
    # unconstrained for the caller) is not evidence of a violation either: "needs contract", not "bug" -> undecided
    for o in all_obs:
        f, ur_ = o.get("fn"), o.get("ur")
        if not (o["failed"] and f is not None and ur_ is not None and getattr(ur_, "auto_included", None)):
            continue
        text = "\n".join(ur_.gen.lines[f["gen_start"] - 1:f["gen_end"]])
        tmask = extract.mask_rust(text)
        used = [h.split("::")[-1] for h in ur_.auto_included if h.split("::")[-1] != f["name"] and re.search(r"\b" + re.escape(h.split("::")[-1]) + r"\s*\(", tmask)]
        if used:
            # ... unless the property's concrete scenarios REPRODUCE a misbehaviour on the real crate: a replayed failing
            # input is definitive, whatever the helper's missing contract (only possible on /repo itself, not on a scratch copy)
            w = reproduced_on_real_crate(o)
            if w:
                o["witness"] = w
                continue
            o["soft"] = True
            undecided.append(f"helper-without-contract unit={o.get('unit')}: {o['id']} fails, but {f['name']} calls {', '.join(sorted(set(used)))} which is not under contract (auto-included, result unconstrained)")
    wall = time.time() - t0
    # `soft` failures (hint-lost / helper-without-contract without a reproduced witness) are undecided, not violations
    failed = [o for o in all_obs if o["failed"] and not o.get("soft")]
    # ---- known findings ----
    kf_lines = []
    new_viol = []
    for o in failed:
        match = None
        for k in known.get("findings", []):
            if k.get("status") == "open" and k["property"] == prop and k["obligation"] == o["id"]:
                sites = k.get("sites")
                locs = [e.get("repo_loc") for e in o["failed"]] if o.get("ur") is not None else []
                rx = k.get("every_error_matches")     # pins the finding to ONE failure: any other failing error of the same obligation is still a violation
                texts = [e.get("rendered", "") for e in o["failed"]]
                if (sites is None or all(any(s in (l or "") for s in sites) for l in locs)) and \
                        (rx is None or all(re.search(rx, t, re.S) for t in texts)):
                    match = k
        if match:
            kf_lines.append(f"KNOWN-FINDING: property={prop} {o['id']} — {match['what']}")
        else:
            new_viol.append(o)

    level = cfg["level"]
    n_ob = len(all_obs)
    n_dis = len([o for o in all_obs if not o["failed"]])
    assumptions = list(cfg.get("assumptions", []))
    if cfg.get("kani") and "kani" not in extra:
        assumptions.append("IEEE-754 axioms about Number/f64 used by the Verus lemmas are ASSUMED in the quick tier; the thorough tier discharges them with Kani on the real impls")
    ev = {
        "property_id": prop, "tier": tier, "seed": seed, "level": level,
        "coverage": {
            "obligations": n_ob, "discharged": n_dis,
            "checker_cmd": " ; ".join(checker_cmds) if checker_cmds else "none",
            "trusted_base": sorted(set(trusted)),
            "explanation": cfg.get("explanation", ""),
            "samples": [{"obligation": o["id"], "kind": o["kind"], "clause": o.get("text"), "at": o.get("where"),
                         "status": "FAILED" if o["failed"] else "discharged"} for o in all_obs][:400],
            "functions_under_contract": functions,
            "units": unit_reports,
            "back_ends": ["verus 0.2026.09.13 / z3 (bundled)"] + (["kani 0.68 / cbmc 6.11 + cadical"] if "kani" in extra else []),
            "solver_time_s": round(solver_us / 1e6, 3),
            "rewrite_rule_applications": rewrites,
            "vacuity_canaries": canaries,
            "undecided": undecided,
            "known_findings_reported": kf_lines,
            "extra": extra,
            "proof_stability_rlimit3": stability,
            "regression_observation_on_real_crate": observation,
            "obligation_counting_rule": "one obligation per ensures/loop-invariant/decreases clause per function under contract, one aggregated safety obligation per function (overflow, bounds, unwrap, unreached, callee preconditions, source assert!/debug_assert!), one per lemma; a clause is discharged iff Verus produced a query for the function and no verifier diagnostic names the clause",
        },
        "assumptions": assumptions,
        "wall_s": round(wall, 2),
        "violations": len(new_viol),
    }
    # (no `evaluations` / `distinct_nontrivial`: nothing is sampled here - the counts this run measures are the
    # obligations generated and discharged, listed one by one under `samples`)

    if undecided and not new_viol:
        ev["coverage"]["discharged"] = 0 if level == "proof" else ev["coverage"]["discharged"]
        with open(ev_path, "w") as f:
            json.dump(ev, f, indent=1, default=str)
        for u in undecided:
            print(f"UNDECIDED property={prop} reason={u}")
        return 2
    # an obligation that FAILS in a unit the verifier did process is a violation whatever remained undecided elsewhere
    # (another unit the front end rejected, another function whose hints were lost): units and functions are verified
    # independently, so the undecided parts take nothing away from the failed obligation. They are listed as notes.
    for u in undecided:
        print(f"NOTE property={prop} undecided-elsewhere: {u}")
    with open(ev_path, "w") as f:
        json.dump(ev, f, indent=1, default=str)
    for ln in kf_lines:
        print(ln)
    if new_viol:
        rdir = os.path.join(out_root, "replay", prop)
        os.makedirs(rdir, exist_ok=True)
        for o in new_viol:
            rp = os.path.join(rdir, re.sub(r"[^A-Za-z0-9_.#-]", "_", o["id"]) + ".json")
            witness = None
            if o.get("witness"):
                witness = o["witness"]
            else:
                try:
                    import witness as wmod
                    witness = wmod.find(prop, o, tier)
                except Exception as e:  # witness search is best effort and never decides
                    witness = {"found": False, "note": f"witness search failed: {e}"}
            rec = {"property": prop, "obligation": o["id"], "kind": o["kind"], "clause": o.get("text"), "at": o.get("where"),
                   "unit": o.get("unit"),
                   "verifier_output": [e.get("rendered", "") for e in o["failed"]],
                   "failed_at_repo_lines": [e.get("repo_loc") for e in o["failed"]],
                   "generated_file": o["ur"].path if o.get("ur") is not None else None,
                   "extracted_function": extracted_text(o),
                   "witness": witness}
            with open(rp, "w") as f:
                json.dump(rec, f, indent=1, default=str)
            tail = "" if (witness and witness.get("found")) else " no-failing-input-found"
            locs = ",".join(sorted({l for l in rec["failed_at_repo_lines"] if l}))
            print(f"VIOLATION property={prop} replay={rp} obligation={o['id']} at={locs or o.get('where')}{tail}")
        return 1
    if observation and observation.get("found"):
        # NOT a verdict of this check: a concrete scenario misbehaves on the real crate although every obligation of the
        # functions under contract is discharged (i.e. the cause lies outside them, or in an assumption)
        print(f"OBSERVATION property={prop} concrete scenario fails on the real crate although all obligations hold: {str(observation.get('what') or observation.get('input'))[:300]}")
    print(f"OK property={prop} tier={tier} obligations={n_ob} discharged={n_dis} units={','.join(cfg['units'])} wall={wall:.1f}s")
    return 0


def extracted_text(o):
    ur = o.get("ur")
    f = o.get("fn")
    if ur is None or f is None:
        return None
    return "\n".join(ur.gen.lines[f["gen_start"] - 1:f["gen_end"]])


def do_replay(prop, path):
    rec = load_json(path)
    if rec is None:
        print(f"replay file {path} not found")
        return 2
    print(f"replay property={prop} obligation={rec['obligation']} at={rec.get('at')}")
    for v in rec.get("verifier_output", []):
        print(v)
    w = rec.get("witness") or {}
    if w.get("found") and w.get("cmd"):
        print("re-running witness on the real code:", w["cmd"])
        try:
            import witness as wmod
            r = wmod.rerun(w)
            print(r["output"])
            if w.get("kind") == "listops":
                again = r["reproduced"]
            else:
                # the recorded input has been re-run above (its output is shown); whether it still MISBEHAVES is judged the way it was
                # found: the property's scenarios are evaluated again on the real crate and must flag the same input
                now = wmod.find(prop, None, "quick")
                again = bool(now.get("found")) and now.get("input") == w.get("input")
                if now.get("found") and not again:
                    print("the recorded input behaves correctly now; a DIFFERENT scenario misbehaves: " + str(now.get("what"))[:300])
            print("witness " + ("REPRODUCED" if again else "did not reproduce on the current tree"))
            return 1 if again else 0
        except Exception as e:
            print("witness re-run failed:", e)
            return 2
    # no concrete input: re-run the verifier and report whether the obligation still fails
    rc = main([sys.argv[0], prop])
    return rc


if __name__ == "__main__":
    sys.exit(main(sys.argv))
