#!/usr/bin/env python3
"""seedtable.py : prints the OFFICIAL outcome of every kept seeded change (from seeded/*/meta.json as written by vx/rekeep.py):
one line per seed and the totals. Used to keep DESIGN.md section 9 honest."""
import json, os, sys
ROOT = os.path.dirname(os.path.dirname(os.path.abspath(__file__)))
props = json.load(open(os.path.join(ROOT, "contracts", "props.json")))
rows, tot = [], {}
for d in sorted(os.listdir(os.path.join(ROOT, "seeded"))):
    mp = os.path.join(ROOT, "seeded", d, "meta.json")
    if not os.path.exists(mp):
        continue
    m = json.load(open(mp))
    own = m.get("breaks_property", d[:3])
    if own not in props:
        out = "not claimed"
    elif "superseded" in (m.get("rebased") or "") or "NO LONGER breaks" in (m.get("rebased") or ""):
        out = "superseded by a repair"
    else:
        out = m.get("own_property_outcome", "?")
    r = m.get("check_results_with_patch_applied", {}).get(own, {})
    first = (r.get("lines") or [""])[0]
    obl = ""
    if "obligation=" in first:
        obl = first.split("obligation=")[1].split()[0]
    wit = "" if ("no-failing-input-found" in first or not first.startswith("VIOLATION")) else " +witness"
    if first.startswith("VIOLATION") and len(first) >= 299 and "(witness replayed)" not in first and "no-failing-input-found" not in first:
        wit = " (?)"      # recorded before rekeep kept the tail of shortened lines
    others = [p for p in m.get("detected_by", []) if p != own]
    rows.append((d, own, out, obl + wit, ",".join(others), m.get("results_recorded_with_verif_commit", "")))
    tot[out] = tot.get(out, 0) + 1
if "--md" in sys.argv:
    print("| seed | official outcome of its own property's check | first failing obligation | also reported by | recorded at |")
    print("|---|---|---|---|---|")
    for r in rows:
        print("| " + " | ".join(r) + " |")
else:
    for r in rows:
        print("%-8s %-4s %-24s %-62s %-10s %s" % r)
print()
print("totals:", ", ".join(f"{k}: {v}" for k, v in sorted(tot.items())), f"(of {len(rows)})")
