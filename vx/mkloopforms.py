#!/usr/bin/env python3
"""mkloopforms.py : (re)generates contracts/loopforms.json - for every function under contract that carries loop annotations, the loop
keywords of its REAL text in /repo, in textual order. Run on the unchanged tree after a template gained or lost loop annotations."""
import json, os, sys
sys.path.insert(0, os.path.dirname(os.path.abspath(__file__)))
import extract
ROOT = os.path.dirname(os.path.dirname(os.path.abspath(__file__)))
out = {}
for t in sorted(os.listdir(os.path.join(ROOT, "contracts"))):
    if not t.endswith(".vx"):
        continue
    unit = t[:-3]
    g = extract.generate(unit, os.path.join(ROOT, "contracts", t))
    for f in g.functions:
        if f.get("loop_annotated"):
            out[f"{unit}::{f['name']}"] = f["loopform"]
json.dump(out, open(os.path.join(ROOT, "contracts", "loopforms.json"), "w"), indent=1, sort_keys=True)
print(len(out), "functions with loop annotations")
