#!/usr/bin/env python3
"""Mechanical extractor: real numbat function bodies -> one Verus input file per unit.

A unit is described by a template `contracts/<unit>.vx`: ordinary Verus text (preamble: abstract
types, assumed callee contracts, spec functions, lemmas) with directive blocks

    //@fn <repo file> | <impl header or -> | <fn name>
    //@  props: C18 C08
    //@  ret: r
    //@  requires: <clause>
    //@  ensures: <clause>
    //@  decreases: <clause>
    //@  loop <n> invariant: <clause>      (n = ordinal of while/loop/for in the body)
    //@  loop <n> decreases: <clause>
    //@  rewrite: <rule> | <from text> | <to text>      (exactly one occurrence required)
    //@  rewrite*: <rule> | <from text> | <to text>     (all occurrences, at least one required)
    //@  insert: <before|after> | <anchor text> | <text>
    //@  sig: <from> | <to>                              (rewrite inside the signature)
    //@  attr: <attribute text placed before the fn>
    //@end

    //@item <repo file> | <struct|enum|type|macro|const> <name>     (verbatim item, attributes dropped)
    //@lemma <name> | props: C12            ... //@end  (a proof fn written in the template; an obligation)

Everything that comes from /repo is copied byte for byte from the *current* working tree; the
closed list of rewrite rules is in DESIGN.md section 3.2. A directive whose anchor no longer
matches raises AnchorLost (exit 2 in the check: undecided, never a violation).
"""
import hashlib
import os
import re
import sys

REPO = os.environ.get("VERIF_REPO", "/repo")


class AnchorLost(Exception):
    pass


# --------------------------------------------------------------------------------------------
# Rust-aware masking: comments and literal contents become spaces so braces/regexes are safe.
# --------------------------------------------------------------------------------------------
F64_TOTAL = [
    "pub mod f64_total__ {",
    "    use vstd::prelude::*;",
    "    pub broadcast axiom fn axiom_f64_sub_total(a: f64, b: f64) ensures #[trigger] vstd::std_specs::ops::SubSpec::sub_req(a, b);",
    "    pub broadcast axiom fn axiom_f64_add_total(a: f64, b: f64) ensures #[trigger] vstd::std_specs::ops::AddSpec::add_req(a, b);",
    "    pub broadcast axiom fn axiom_f64_mul_total(a: f64, b: f64) ensures #[trigger] vstd::std_specs::ops::MulSpec::mul_req(a, b);",
    "    pub broadcast axiom fn axiom_f64_div_total(a: f64, b: f64) ensures #[trigger] vstd::std_specs::ops::DivSpec::div_req(a, b);",
    "    pub broadcast group f64_arith_total { axiom_f64_sub_total, axiom_f64_add_total, axiom_f64_mul_total, axiom_f64_div_total }",
    "}",
    "broadcast use f64_total__::f64_arith_total;",
]


def mask_rust(src: str) -> str:
    out = list(src)
    n = len(src)
    i = 0

    def blank(a, b):
        for k in range(a, b):
            if out[k] != "\n":
                out[k] = " "

    while i < n:
        c = src[i]
        if c == "/" and i + 1 < n and src[i + 1] == "/":
            j = src.find("\n", i)
            j = n if j < 0 else j
            blank(i, j)
            i = j
        elif c == "/" and i + 1 < n and src[i + 1] == "*":
            depth, j = 1, i + 2
            while j < n and depth:
                if src.startswith("/*", j):
                    depth += 1
                    j += 2
                elif src.startswith("*/", j):
                    depth -= 1
                    j += 2
                else:
                    j += 1
            blank(i, j)
            i = j
        elif c == '"' or (c == "b" and i + 1 < n and src[i + 1] == '"' and not (i and (src[i - 1].isalnum() or src[i - 1] == "_"))):
            s = i + (1 if c == '"' else 2)
            j = s
            while j < n and src[j] != '"':
                j += 2 if src[j] == "\\" else 1
            blank(s, j)
            i = j + 1
        elif c in "rb" and not (i and (src[i - 1].isalnum() or src[i - 1] == "_")) and re.match(r'b?r#*"', src[i:i + 12]):
            m = re.match(r'b?r(#*)"', src[i:])
            hashes = m.group(1)
            s = i + m.end()
            j = src.find('"' + hashes, s)
            j = n if j < 0 else j
            blank(s, j)
            i = j + 1 + len(hashes)
        elif c == "'":
            # char literal or lifetime
            if i + 1 < n and src[i + 1] == "\\":
                j = src.find("'", i + 2)
                # handle '\''
                if src[i + 2] == "'":
                    j = src.find("'", i + 3)
                blank(i + 1, j)
                i = j + 1
            elif i + 2 < n and src[i + 2] == "'":
                blank(i + 1, i + 2)
                i += 3
            else:
                # multi-byte char literal like '°' is still one Python char; lifetime otherwise
                i += 1
        else:
            i += 1
    return "".join(out)


def match_brace(mask: str, open_idx: int) -> int:
    """index of the brace matching mask[open_idx] ('{', '(' or '[')"""
    pairs = {"{": "}", "(": ")", "[": "]"}
    o = mask[open_idx]
    c = pairs[o]
    depth = 0
    for k in range(open_idx, len(mask)):
        if mask[k] == o:
            depth += 1
        elif mask[k] == c:
            depth -= 1
            if depth == 0:
                return k
    raise AnchorLost(f"unbalanced {o} at offset {open_idx}")


def line_of(src: str, idx: int) -> int:
    return src.count("\n", 0, idx) + 1


def _tok_regex(header: str) -> str:
    toks = re.findall(r"[A-Za-z0-9_]+|'[A-Za-z_]+|\S", header)
    return r"\s*".join(re.escape(t) for t in toks)


class Source:
    _cache = {}

    def __init__(self, rel):
        self.rel = rel
        self.path = os.path.join(REPO, rel)
        try:
            self.text = open(self.path, encoding="utf-8").read()
        except OSError as e:
            raise AnchorLost(f"cannot read {self.path}: {e}")
        self.mask = mask_rust(self.text)

    @classmethod
    def get(cls, rel):
        if rel not in cls._cache:
            cls._cache[rel] = Source(rel)
        return cls._cache[rel]

    @classmethod
    def reset(cls):
        cls._cache = {}

    def test_ranges(self):
        """byte ranges of #[cfg(test)] mod ... { } blocks (excluded from searches)"""
        res = []
        for m in re.finditer(r"#\[cfg\(test\)\]\s*(pub\s+)?mod\s+\w+\s*\{", self.mask):
            o = m.end() - 1
            res.append((m.start(), match_brace(self.mask, o)))
        return res

    def in_tests(self, idx):
        return any(a <= idx <= b for a, b in self.test_ranges())

    def find_impl(self, header):
        rx = re.compile(_tok_regex(header) + r"\s*(where\b[^{;]*)?\{")
        hits = [m for m in rx.finditer(self.mask) if not self.in_tests(m.start())
                and (m.start() == 0 or not (self.mask[m.start() - 1].isalnum() or self.mask[m.start() - 1] == "_"))]
        if not hits:
            raise AnchorLost(f"{self.rel}: impl header `{header}` not found")
        if len(hits) > 1:
            # merge: several impl blocks with the same header are all searched
            pass
        return [(m.end() - 1, match_brace(self.mask, m.end() - 1)) for m in hits]

    def find_fn(self, name, ranges):
        rx = re.compile(r"((?:pub(?:\s*\([^)]*\))?\s+)?(?:const\s+)?(?:unsafe\s+)?fn\s+" + re.escape(name) + r")\b")
        found = []
        for (a, b) in ranges:
            for m in rx.finditer(self.mask, a, b):
                if self.in_tests(m.start()):
                    continue
                # depth relative to range start must be 1 (directly inside the impl) or 0 (top level)
                seg = self.mask[a:m.start()]
                depth = seg.count("{") - seg.count("}")
                want = 1 if self.mask[a] == "{" else 0
                if depth != want:
                    continue
                found.append(m)
        if not found:
            raise AnchorLost(f"{self.rel}: fn `{name}` not found")
        if len(found) > 1:
            raise AnchorLost(f"{self.rel}: fn `{name}` ambiguous ({len(found)} matches)")
        m = found[0]
        sig_start = m.start()
        # signature ends at the first '{' at paren/bracket/angle-insensitive depth 0
        k = m.end()
        depth = 0
        while k < len(self.mask):
            ch = self.mask[k]
            if ch in "([":
                depth += 1
            elif ch in ")]":
                depth -= 1
            elif ch == "{" and depth == 0:
                break
            elif ch == ";" and depth == 0:
                raise AnchorLost(f"{self.rel}: fn `{name}` has no body")
            k += 1
        body_open = k
        body_close = match_brace(self.mask, body_open)
        return sig_start, body_open, body_close

    def find_helper(self, name):
        """(impl header text, impl range) of the inherent impl block that defines `fn name` directly, or None"""
        for m in re.finditer(r"\bimpl\b[^{;]*\{", self.mask):
            if self.in_tests(m.start()):
                continue
            if self.mask[:m.start()].count("{") != self.mask[:m.start()].count("}"):
                continue
            header = self.text[m.start():m.end() - 1].strip()
            if re.search(r"\bfor\b", mask_rust(header)):
                continue        # trait impls are not helpers
            rng = (m.end() - 1, match_brace(self.mask, m.end() - 1))
            try:
                self.find_fn(name, [rng])
            except AnchorLost:
                continue
            return header, rng
        # a FREE function at the top level of the file (`fn is_currency_char(c: char) -> bool`): impl header "-"
        for m in re.finditer(r"\bfn\s+" + re.escape(name) + r"\b", self.mask):
            if self.in_tests(m.start()):
                continue
            if self.mask[:m.start()].count("{") == self.mask[:m.start()].count("}"):
                return "-", (0, len(self.mask))
        return None

    def find_item(self, kind, name):
        if kind == "macro":
            rx = re.compile(r"macro_rules!\s*" + re.escape(name) + r"\s*\{")
        elif kind in ("struct", "enum", "union"):
            rx = re.compile(r"(?:pub(?:\s*\([^)]*\))?\s+)?" + kind + r"\s+" + re.escape(name) + r"\b[^;{(]*[{(;]")
        elif kind == "type":
            rx = re.compile(r"(?:pub(?:\s*\([^)]*\))?\s+)?type\s+" + re.escape(name) + r"\b[^;]*;")
        elif kind == "const":
            rx = re.compile(r"(?:pub(?:\s*\([^)]*\))?\s+)?const\s+" + re.escape(name) + r"\b[^;]*;")
        else:
            raise AnchorLost(f"unknown item kind {kind}")
        hits = [m for m in rx.finditer(self.mask) if not self.in_tests(m.start())]
        # top-level only
        hits = [m for m in hits if self.mask[:m.start()].count("{") == self.mask[:m.start()].count("}")]
        if len(hits) != 1:
            raise AnchorLost(f"{self.rel}: item `{kind} {name}` matched {len(hits)} times")
        m = hits[0]
        if kind in ("type", "const"):
            return m.start(), m.end()
        last = m.end() - 1
        if self.mask[last] == ";":
            return m.start(), m.end()
        close = match_brace(self.mask, last)
        end = close + 1
        if self.mask[last] == "(":
            # tuple struct: up to ';'
            end = self.mask.index(";", close) + 1
        return m.start(), end


# --------------------------------------------------------------------------------------------
# Rewrite helpers (DESIGN 3.2)
# --------------------------------------------------------------------------------------------
def strip_attrs_and_docs(text: str) -> str:
    """R0: drop doc comments and #[...] attributes (possibly multi-line) inside an item, keeping line structure."""
    mask = mask_rust(text)
    out = list(text)
    k = 0
    while k < len(mask):
        if mask[k] == "#" and k + 1 < len(mask) and mask[k + 1] == "[":
            e = match_brace(mask, k + 1)
            for j in range(k, e + 1):
                if out[j] != "\n":
                    out[j] = " "
            k = e + 1
        else:
            k += 1
    text = "".join(out)
    out_lines = []
    for ln in text.split("\n"):
        s = ln.strip()
        if s.startswith("///") or s.startswith("//!"):
            out_lines.append("")
        else:
            out_lines.append(ln.rstrip())
    return "\n".join(out_lines)


def _macro_call_spans(mask, name):
    for m in re.finditer(r"\b" + re.escape(name) + r"!\s*\(", mask):
        o = m.end() - 1
        yield m.start(), o, match_brace(mask, o)


def rule_R4(body: str, log, where):
    """debug_assert!/assert!(e, msg..) -> assert(e); unreachable!(..) -> unreached()"""
    changed = True
    while changed:
        changed = False
        mask = mask_rust(body)
        for name in ("debug_assert", "assert"):
            for s, o, c in _macro_call_spans(mask, name):
                inner = body[o + 1:c]
                imask = mask[o + 1:c]
                depth = 0
                cut = len(inner)
                for k, ch in enumerate(imask):
                    if ch in "([{":
                        depth += 1
                    elif ch in ")]}":
                        depth -= 1
                    elif ch == "," and depth == 0:
                        cut = k
                        break
                new = "assert(" + inner[:cut].strip() + ")"
                pad = "\n" * body[s:c + 1].count("\n")
                log.append({"rule": "R4", "where": where, "before": body[s:c + 1], "after": new})
                body = body[:s] + new + pad + body[c + 1:]
                changed = True
                break
            if changed:
                break
        if changed:
            continue
        for s, o, c in list(_macro_call_spans(mask, "unreachable")) + list(_macro_call_spans(mask, "panic")):
            new = "vstd::pervasive::unreached()"
            if body[c + 1:c + 2] == ";":
                # statement position: the macro diverges (type `!`); keep the block's type by returning
                new = "return vstd::pervasive::unreached()"
            pad = "\n" * body[s:c + 1].count("\n")
            log.append({"rule": "R4", "where": where, "before": body[s:c + 1], "after": new})
            body = body[:s] + new + pad + body[c + 1:]
            changed = True
            break
    return body


def rule_R15(body: str, log, where):
    """`for .. { A; if c { B; continue; } REST }`  ->  `for .. { A; if c { B } else { REST } }`  (guard-continue; Verus has no
    `continue` in `for`). Only when the `if` has no `else`, its block ends with `continue;` and it is a direct statement of the
    loop body; anything else is left alone (and then rejected by the front end)."""
    for _ in range(8):
        mask = mask_rust(body)
        done = True
        for m in re.finditer(r"\bcontinue\s*;\s*\}", mask):
            close_if = m.end() - 1
            # matching `{` of the if block
            depth, k = 0, close_if
            while k >= 0:
                if mask[k] == "}":
                    depth += 1
                elif mask[k] == "{":
                    depth -= 1
                    if depth == 0:
                        break
                k -= 1
            open_if = k
            # enclosing loop body whose direct child this if is
            spans = [sp for sp in loop_spans(mask) if sp[1] < open_if and close_if < sp[2]]
            if not spans:
                continue
            kw, b_open, b_close = max(spans, key=lambda sp: sp[1])
            inner = mask[b_open + 1:open_if]
            if inner.count("{") != inner.count("}"):
                continue                      # nested deeper than the loop body
            stmt_start = max(inner.rfind(";"), inner.rfind("}")) + 1
            head = inner[stmt_start:].strip()
            if not re.match(r"if\b", head) or re.search(r"\belse\s*$", head):
                continue
            after = mask[close_if + 1:b_close]
            if re.match(r"\s*else\b", after):
                continue
            rest = body[close_if + 1:b_close]
            new_if_block = body[open_if:m.start()].rstrip()
            body = body[:open_if] + new_if_block + " } else {" + rest + "} " + body[b_close:]
            log.append({"rule": "R15", "where": where, "before": "if c { ..; continue; } REST", "after": "if c { .. } else { REST }"})
            done = False
            break
        if done:
            break
    return body


def rule_R17(body: str, log, where):
    """match-arm pattern `Some(&x) => E`  ->  `Some(x__r) => { let x = *x__r; E }` (Verus has no reference patterns; the
    language's own meaning of `&x` in a pattern for a Copy type)"""
    for _ in range(16):
        mask = mask_rust(body)
        m = re.search(r"\b(Some|Ok|Err)\(\s*&\s*(\w+)\s*\)(\s*)=>(\s*)", mask)
        if not m:
            break
        name = m.group(2)
        k = m.end()
        if mask[k] == "{":
            body = body[:m.start()] + f"{m.group(1)}({name}__r) => {{ let {name} = *{name}__r;" + body[k + 1:]
        else:
            depth, e = 0, k
            while e < len(mask):
                ch = mask[e]
                if ch in "([{":
                    depth += 1
                elif ch in ")]}":
                    if depth == 0:
                        break
                    depth -= 1
                elif ch == "," and depth == 0:
                    break
                e += 1
            body = body[:m.start()] + f"{m.group(1)}({name}__r) => {{ let {name} = *{name}__r; " + body[k:e] + " }" + body[e:]
        log.append({"rule": "R17", "where": where, "before": f"{m.group(1)}(&{name}) =>", "after": f"{m.group(1)}({name}__r) => {{ let {name} = *{name}__r; .. }}"})
    return body


def rule_R18(body: str, log, where):
    """`let PAT(ref x) = EXPR else {`  ->  `let x__t = EXPR; let PAT(x) = &x__t else {`  (Verus has no `ref` patterns; binding by
    reference to a temporary that lives to the end of the block is what `ref` on a temporary does)"""
    for _ in range(8):
        mask = mask_rust(body)
        m = re.search(r"\blet\s+([A-Za-z_][\w:]*)\(\s*ref\s+(\w+)\s*\)\s*=\s*", mask)
        if not m:
            break
        # expression up to ` else {` at depth 0
        k, depth = m.end(), 0
        e = None
        while k < len(mask):
            ch = mask[k]
            if ch in "([{":
                depth += 1
            elif ch in ")]}":
                depth -= 1
            elif depth == 0 and re.match(r"\belse\b", mask[k:k + 5]):
                e = k
                break
            elif ch == ";" and depth == 0:
                break
            k += 1
        if e is None:
            break
        pat, name = m.group(1), m.group(2)
        expr = body[m.end():e].strip()
        body = body[:m.start()] + f"let {name}__t = {expr}; let {pat}({name}) = &{name}__t " + body[e:]
        log.append({"rule": "R18", "where": where, "before": f"let {pat}(ref {name}) = .. else", "after": f"let {name}__t = ..; let {pat}({name}) = &{name}__t else"})
    return body


def _split_arm_body(mask, k):
    """k = offset just after `=>`; returns (body_start, body_end_exclusive, next_offset) of an arm body (block or expr up to `,`)"""
    n = len(mask)
    while k < n and mask[k] in " \n\t":
        k += 1
    if mask[k] == "{":
        e = match_brace(mask, k) + 1
        nx = e
        while nx < n and mask[nx] in " \n\t":
            nx += 1
        if nx < n and mask[nx] == ",":
            nx += 1
        return k, e, nx
    depth, e = 0, k
    while e < n:
        ch = mask[e]
        if ch in "([{":
            depth += 1
        elif ch in ")]}":
            if depth == 0:
                break
            depth -= 1
        elif ch == "," and depth == 0:
            break
        e += 1
    nx = e + 1 if e < n and mask[e] == "," else e
    return k, e, nx


def rule_R19(body: str, log, where):
    """`match X { P if G => A, _ => B }`  ->  `if let P = X { if G { A } else { B } } else { B }`  (exactly these two arms; Verus rejects
    a guard together with a by-reference binding). Only one of the copies of B runs, exactly when the original ran B."""
    for _ in range(8):
        mask = mask_rust(body)
        done = True
        for m in re.finditer(r"\bmatch\b", mask):
            # scrutinee up to the `{` at depth 0
            k, depth = m.end(), 0
            while k < len(mask):
                ch = mask[k]
                if ch in "([":
                    depth += 1
                elif ch in ")]":
                    depth -= 1
                elif ch == "{" and depth == 0:
                    break
                k += 1
            if k >= len(mask):
                continue
            open_b, close_b = k, match_brace(mask, k)
            inner0 = open_b + 1
            # first arm: PATTERN if GUARD =>
            a = inner0
            depth, arrow, ifpos = 0, None, None
            j = a
            while j < close_b:
                ch = mask[j]
                if ch in "([{":
                    depth += 1
                elif ch in ")]}":
                    depth -= 1
                elif depth == 0 and mask.startswith("=>", j):
                    arrow = j
                    break
                elif depth == 0 and ifpos is None and re.match(r"\bif\b", mask[j:j + 3]) and (j == 0 or not (mask[j - 1].isalnum() or mask[j - 1] == "_")):
                    ifpos = j
                j += 1
            if arrow is None or ifpos is None:
                continue
            pat = body[a:ifpos].strip()
            guard = body[ifpos + 2:arrow].strip()
            b1s, b1e, nx = _split_arm_body(mask, arrow + 2)
            # second (last) arm must be `_ =>`
            m2 = re.match(r"\s*_\s*=>", mask[nx:close_b])
            if not m2:
                continue
            b2s, b2e, nx2 = _split_arm_body(mask, nx + m2.end())
            if mask[nx2:close_b].strip():
                continue            # more arms: not this shape
            scrut = body[m.end():open_b].strip()
            A, B = body[b1s:b1e], body[b2s:b2e]
            blk = lambda t: t if t.lstrip().startswith("{") else "{ " + t + " }"
            new = f"if let {pat} = {scrut} {{ if {guard} {blk(A)} else {blk(B)} }} else {blk(B)}"
            body = body[:m.start()] + new + body[close_b + 1:]
            log.append({"rule": "R19", "where": where, "before": f"match {scrut} {{ {pat} if {guard} => .., _ => .. }}", "after": "if let .. { if guard { A } else { B } } else { B }"})
            done = False
            break
        if done:
            break
    return body


def rule_R8(body: str, log, where):
    """let-chains: `if C1 && let P = E && C2 { B } [else { X }]`  ->  nested `if C1 { if let P = E { if C2 { B } else { X } } else { X } } else { X }`
    (the language's own meaning: conditions are evaluated left to right, the else block runs when any of them fails). `else if` chains
    and `while` with let-chains are left alone."""
    for _ in range(12):
        mask = mask_rust(body)
        done = True
        for m in re.finditer(r"\bif\b", mask):
            # condition up to the `{` at depth 0 - braces of a struct PATTERN (`let P { a, b } = e`) belong to the condition
            k, depth, in_pat, after_match, bdepth = m.end(), 0, False, False, 0
            while k < len(mask):
                ch = mask[k]
                isw = not (k > 0 and (mask[k - 1].isalnum() or mask[k - 1] == "_"))
                if depth == 0 and isw and re.match(r"let\b", mask[k:k + 4]):
                    in_pat = True
                if depth == 0 and isw and re.match(r"match\b", mask[k:k + 6]):
                    after_match = True        # the next `{ .. }` is the body of a `match` inside the condition
                if ch in "([":
                    depth += 1
                elif ch in ")]":
                    depth -= 1
                elif ch == "{" and (in_pat or after_match or bdepth > 0):
                    depth += 1
                    bdepth += 1
                    after_match = False
                elif ch == "}" and bdepth > 0:
                    depth -= 1
                    bdepth -= 1
                elif ch == "=" and depth == 0 and in_pat and mask[k + 1:k + 2] not in ("=", ">") and mask[k - 1:k] not in ("=", "<", ">", "!"):
                    in_pat = False
                elif ch == "{" and depth == 0:
                    break
                elif ch in ";}" and depth == 0:
                    k = len(mask)
                    break
                k += 1
            if k >= len(mask):
                continue
            cond_m = mask[m.end():k]
            if not re.search(r"&&\s*let\b|\blet\b[^=]*=[^=].*&&", cond_m, re.S):
                continue
            # not an `else if` (keep it simple) and not inside a match guard
            pre = mask[:m.start()].rstrip()
            if pre.endswith("else") or pre.endswith("=>"):
                continue
            # split at top-level `&&`
            parts, depth, last = [], 0, 0
            j = 0
            while j < len(cond_m):
                ch = cond_m[j]
                if ch in "([{":
                    depth += 1
                elif ch in ")]}":
                    depth -= 1
                elif depth == 0 and cond_m.startswith("&&", j):
                    parts.append((last, j))
                    last = j + 2
                    j += 1
                j += 1
            parts.append((last, len(cond_m)))
            if len(parts) < 2:
                continue
            cond_t = body[m.end():k]
            items = [cond_t[a:b].strip() for a, b in parts]
            b_open, b_close = k, match_brace(mask, k)
            then_blk = body[b_open:b_close + 1]
            rest = mask[b_close + 1:]
            me = re.match(r"\s*else\s*\{", rest)
            else_blk, end = None, b_close + 1
            if me:
                e_open = b_close + 1 + me.end() - 1
                e_close = match_brace(mask, e_open)
                else_blk, end = body[e_open:e_close + 1], e_close + 1
            elif re.match(r"\s*else\b", rest):
                continue            # else-if chain: not handled
            new = then_blk
            for it in reversed(items):
                new = "{ if " + it + " " + new + (" else " + else_blk if else_blk else "") + " }"
            new = new[1:-1].strip()      # outermost braces off: it is an `if` expression again
            body = body[:m.start()] + new + body[end:]
            log.append({"rule": "R8", "where": where, "before": "if " + " && ".join(items)[:120] + " { .. }", "after": "nested if / if let"})
            done = False
            break
        if done:
            break
    return body


def rule_R3f(body: str, log, where):
    """`for (a, b) in E { .. }`  ->  `for ab__ in E { let (a, b) = ab__; .. }`  (alpha-renaming: Verus wants a variable as loop pattern)"""
    for n_ in range(8):
        mask = mask_rust(body)
        m = re.search(r"\bfor\s*(\((?:[^()]|\([^()]*\))*\))\s+in\b", mask)
        if not m:
            break
        k, depth = m.end(), 0
        while k < len(mask):
            ch = mask[k]
            if ch in "([":
                depth += 1
            elif ch in ")]":
                depth -= 1
            elif ch == "{" and depth == 0:
                break
            k += 1
        if k >= len(mask):
            break
        pat = body[m.start(1):m.end(1)]
        var = f"tup{n_}__"
        body = body[:m.start(1)] + var + body[m.end(1):k + 1] + f" let {pat} = {var};" + body[k + 1:]
        log.append({"rule": "R3", "where": where, "before": f"for {pat} in ..", "after": f"for {var} in .. {{ let {pat} = {var}; .."})
    return body


def apply_rewrite(body, rule, frm, to, allocc, log, where):
    """exact-text rewrite. A missing anchor is NOT fatal: the rule is skipped and logged (`missed`), the real text
    goes to Verus unrewritten and either verifies, fails (violation) or is rejected by the front end (undecided).
    Skipping a rewrite can never make a wrong function pass: what Verus then sees is the code itself."""
    cnt = body.count(frm)
    if cnt == 0:
        log.append({"rule": rule, "where": where, "before": frm, "after": to, "count": 0, "missed": True})
        return body
    pad = "\n" * max(0, frm.count("\n") - to.count("\n"))
    log.append({"rule": rule, "where": where, "before": frm, "after": to, "count": cnt})
    return body.replace(frm, to + pad)


CMP_WRAPPERS = {"<=": "f64_le", "<": "f64_lt", ">=": "f64_ge", ">": "f64_gt", "==": "f64_eq", "!=": "f64_ne"}


def rewrite_f64_comparisons(body, log, where):
    """R12, generic form: every binary comparison in the body becomes a call of the matching f64 wrapper.
    Only enabled (directive `f64cmp: all`) for functions whose comparisons are all on f64 values."""
    def operand_left(mask, end):
        k = end - 1
        depth = 0
        while k >= 0:
            ch = mask[k]
            if ch in ")]":
                depth += 1
            elif ch in "([":
                if depth == 0:
                    break
                depth -= 1
            elif depth == 0:
                if ch in "{};,":
                    break
                if ch in "&|" and k > 0 and mask[k - 1] == ch:
                    break
                if ch == "=" :
                    break
                if ch == "!" :
                    break
                m = re.search(r"\b(if|while|return|let|match|else|in)$", mask[:k + 1])
                if m:
                    k = k + 1
                    break
            k -= 1
        return k + 1

    def operand_right(mask, start):
        k = start
        depth = 0
        n = len(mask)
        while k < n:
            ch = mask[k]
            if ch in "([":
                depth += 1
            elif ch in ")]":
                if depth == 0:
                    break
                depth -= 1
            elif depth == 0:
                if ch in "{};,?":
                    break
                if ch in "&|" and k + 1 < n and mask[k + 1] == ch:
                    break
            k += 1
        return k

    count = 0
    pos = 0
    while True:
        mask = mask_rust(body)
        m = None
        for mm in re.finditer(r"<=|>=|==|!=|<|>", mask[pos:]):
            a = pos + mm.start()
            op = mm.group(0)
            before = mask[a - 1] if a > 0 else " "
            after = mask[a + len(op)] if a + len(op) < len(mask) else " "
            if op in ("<", ">") and (before in "-=<>:" or after in "<>=" or before.isalnum() and op == "<" and after.isalpha() and mask[a - 1] != " "):
                continue      # ->, =>, <<, >>, ::<, generic brackets written without spaces
            if op == ">" and before == "-":
                continue
            m = (a, op)
            break
        if m is None:
            break
        a, op = m
        l = operand_left(mask, a)
        r = operand_right(mask, a + len(op))
        lhs = body[l:a].strip()
        rhs = body[a + len(op):r].strip()
        if not lhs or not rhs:
            pos = a + len(op)
            continue
        new = f"{CMP_WRAPPERS[op]}({lhs}, {rhs})"
        pad = "\n" * body[l:r].count("\n")
        lead = body[l:a][:len(body[l:a]) - len(body[l:a].lstrip())]
        log.append({"rule": "R12", "where": where, "before": body[l:r].strip(), "after": new})
        body = body[:l] + lead + new + pad + (" " if body[r:r + 1] in ("{", "&", "|") else "") + body[r:]
        pos = l + len(lead) + len(new)
        count += 1
    return body


def find_closures(mask):
    """[(start, params_end, body_start, body_end)] of closures in textual order (body_end exclusive)"""
    res = []
    k = 0
    n = len(mask)
    while k < n:
        if mask[k] == "|":
            # what precedes (ignoring whitespace)?
            j = k - 1
            while j >= 0 and mask[j] in " \n\t":
                j -= 1
            prev = mask[j] if j >= 0 else "("
            prevword = re.search(r"(\w+)\s*$", mask[:k])
            starts = prev in "(,={;[" or (prevword and prevword.group(1) in ("move", "return", "else", "in"))
            if not starts:
                k += 2 if mask.startswith("||", k) else 1
                continue
            if mask.startswith("||", k):
                pend = k + 2
            else:
                pend = mask.index("|", k + 1) + 1
            b = pend
            while b < n and mask[b] in " \n\t":
                b += 1
            if mask.startswith("->", b):
                # explicit return type closure: body is a block
                b = mask.index("{", b)
            if mask[b] == "{":
                e = match_brace(mask, b) + 1
            else:
                depth = 0
                e = b
                while e < n:
                    ch = mask[e]
                    if ch in "([{":
                        depth += 1
                    elif ch in ")]}":
                        if depth == 0:
                            break
                        depth -= 1
                    elif ch in ",;" and depth == 0:
                        break
                    e += 1
            res.append((k, pend, b, e))
            k = pend
        else:
            k += 1
    return res


def find_loops(mask):
    """offsets of while/loop/for keywords that start loops, in textual order"""
    res = []
    for m in re.finditer(r"\b(while|loop|for)\b", mask):
        if m.group(1) == "for":
            # skip `for<'a>` HRTB and `impl X for Y`
            after = mask[m.end():m.end() + 2]
            if after.lstrip().startswith("<"):
                continue
        res.append(m.start())
    return res



def loop_spans(mask):
    """[(keyword_offset, body_open, body_close, header_text_span)] for every loop, in textual order"""
    res = []
    for k0 in find_loops(mask):
        k = k0
        depth = 0
        while k < len(mask):
            ch = mask[k]
            if ch in "([":
                depth += 1
            elif ch in ")]":
                depth -= 1
            elif ch == "{" and depth == 0:
                break
            k += 1
        if k >= len(mask):
            continue
        res.append((k0, k, match_brace(mask, k)))
    return res


def resolve_loop(sel, body, where):
    """loop selector -> ordinal. `3` = third loop in textual order; `/regex/` = the unique loop whose header
    (text between the loop keyword and its `{`) matches the regex - robust against reordered loops."""
    if isinstance(sel, int):
        return sel
    bm = mask_rust(body)
    spans = loop_spans(bm)
    hits = [i for i, (a, b, c) in enumerate(spans) if re.search(sel, body[a:b])]
    if len(hits) != 1:
        return None
    return hits[0]

# --------------------------------------------------------------------------------------------
# Template processing
# --------------------------------------------------------------------------------------------
class Gen:
    def __init__(self, unit, template_path):
        self.unit = unit
        self.template_path = template_path
        self.lines = []          # generated lines
        self.linemap = []        # per generated line: dict(kind=..., ...)
        self.functions = []      # dicts: name, qual, props, gen_start, gen_end, clauses, hash, repo file/lines
        self.lemmas = []
        self.rewrites = []
        self.macros_out = []     # macro_rules text emitted before verus!

    def emit(self, text, info):
        for ln in text.split("\n"):
            self.lines.append(ln)
            self.linemap.append(dict(info))

    def emit_mapped(self, text, rel, first_line):
        for k, ln in enumerate(text.split("\n")):
            self.lines.append(ln)
            self.linemap.append({"kind": "repo", "file": rel, "line": first_line + k})


def parse_template(path):
    raw = open(path, encoding="utf-8").read().split("\n")
    blocks = []  # ("text", [lines], startline) | ("fn", spec) | ("item", spec) | ("lemma", spec)
    i = 0
    cur = []
    cur_start = 1
    while i < len(raw):
        ln = raw[i]
        s = ln.strip()
        is_block = False
        if s.startswith("//@arm "):
            s = "//@fn " + s[len("//@arm "):]
            is_arm = True
        elif s.startswith("//@block "):
            s = "//@fn " + s[len("//@block "):]
            is_arm = True
            is_block = True
        elif s.startswith("//@guard "):
            # the GUARD of a match arm (`P if <expr> =>`): the expression between `if` and `=>`, as the body of a bool function
            s = "//@fn " + s[len("//@guard "):]
            is_arm = True
            is_block = "guard"
        elif s.startswith("//@stmt "):
            # like //@block, but the extracted text starts at the regex match (e.g. a whole `for` statement)
            s = "//@fn " + s[len("//@stmt "):]
            is_arm = True
            is_block = "stmt"
        else:
            is_arm = False
        if s.startswith("//@fn ") or s.startswith("//@item ") or s.startswith("//@lemma "):
            if cur:
                blocks.append(("text", cur, cur_start))
                cur = []
            if s.startswith("//@item "):
                segs = [x.strip() for x in s[len("//@item "):].split(" | ")]
                rel, what = segs[0], segs[1]
                kind, name = what.split()
                item = {"file": rel, "kind": kind, "name": name, "tline": i + 1, "rewrites": []}
                # optional: `| rewrite: <rule> | <from> | <to>` (exact text inside the item, logged like fn rewrites)
                k = 2
                while k < len(segs):
                    if segs[k].startswith("derive:"):
                        item["derive"] = [d.strip() for d in segs[k][len("derive:"):].split(",")]
                        k += 1
                        continue
                    if segs[k].startswith("rewrite:") and k + 2 < len(segs):
                        item["rewrites"].append((segs[k][len("rewrite:"):].strip(), segs[k + 1], segs[k + 2]))
                        k += 3
                    else:
                        k += 1
                blocks.append(("item", item))
                i += 1
                cur_start = i + 1
                continue
            if s.startswith("//@lemma "):
                parts = [x.strip() for x in s[len("//@lemma "):].split("|")]
                spec = {"name": parts[0], "props": [], "tline": i + 1, "text": []}
                for p in parts[1:]:
                    if p.startswith("props:"):
                        spec["props"] = p[6:].split()
                i += 1
                while raw[i].strip() != "//@end":
                    spec["text"].append(raw[i])
                    i += 1
                i += 1
                blocks.append(("lemma", spec))
                cur_start = i + 1
                continue
            hdr = [x.strip() for x in s[len("//@fn "):].split(" | ")]
            rel, impl, name = hdr[0], hdr[1], hdr[2]
            spec = {"file": rel, "impl": impl, "name": name, "arm": (hdr[3], hdr[4]) if is_arm else None, "block": is_block, "props": [], "ret": None, "clauses": [],
                    "loops": [], "rewrites": [], "inserts": [], "sigs": [], "attrs": [], "tline": i + 1,
                    "as": None, "novis": False, "external_body": False}
            i += 1
            while raw[i].strip() != "//@end":
                d = raw[i].strip()
                if not d.startswith("//@"):
                    raise SystemExit(f"{path}:{i+1}: expected //@ directive inside //@fn block")
                d = d[3:].strip()
                # continuation lines: "//@    | more text" appended to the previous clause
                if d.startswith("|") and spec.get("_last") is not None:
                    spec["_last"]["text"] += " " + d[1:].strip()
                    i += 1
                    continue
                if d.startswith("|") and spec.get("_lastkey") == "insert" and spec["inserts"]:
                    pos, anchor, text = spec["inserts"][-1]
                    spec["inserts"][-1] = (pos, anchor, text + " " + d[1:].strip())
                    i += 1
                    continue
                if d.startswith("|") and spec.get("_lastkey") in ("epilogue", "prologue"):
                    spec[spec["_lastkey"]] += " " + d[1:].strip()
                    i += 1
                    continue
                key, _, val = d.partition(":")
                key = key.strip()
                val = val.strip()
                ctags = None
                mt = re.match(r"^(\w+)\[([^\]]*)\]$", key)
                if mt:
                    key, ctags = mt.group(1), mt.group(2).split()
                spec["_last"] = None
                spec["_lastkey"] = key
                if key == "props":
                    spec["props"] = val.split()
                elif key == "ret":
                    spec["ret"] = val
                elif key in ("requires", "ensures", "decreases", "recommends"):
                    c = {"kind": key, "text": val, "tline": i + 1, "props": ctags}
                    spec["clauses"].append(c)
                    spec["_last"] = c
                elif key.startswith("loop "):
                    mm = re.match(r"loop\s+(/.*/|\d+)\s+(\w+)$", key)
                    if not mm:
                        raise SystemExit(f"{path}:{i+1}: bad loop directive `{key}`")
                    n, what = mm.group(1), mm.group(2)
                    n = int(n) if n.isdigit() else n[1:-1]
                    c = {"loop": n, "kind": what, "text": val, "tline": i + 1}
                    spec["loops"].append(c)
                    spec["_last"] = c
                elif key in ("rewrite", "rewrite*"):
                    rule, frm, to = [x.strip() for x in val.split(" | ")]
                    spec["rewrites"].append((rule, frm.replace("\\n", "\n"), to, key.endswith("*")))
                elif key in ("prewrite-re", "prewrite-re?"):
                    # like rewrite-re, but applied BEFORE the automatic rules (R8 let-chain nesting, R15 ..): for a wrapper that
                    # replaces a piece of a let-chain
                    rule, frm, to = [x.strip() for x in val.split(" | ")]
                    spec.setdefault("prewrites_re", []).append((rule, frm, to, key.endswith("?")))
                elif key in ("rewrite-re", "rewrite-re?"):
                    rule, frm, to = [x.strip() for x in val.split(" | ")]
                    spec.setdefault("rewrites_re", []).append((rule, frm, to, key.endswith("?")))
                elif key == "insert":
                    pos, anchor, text = [x.strip() for x in val.split(" | ", 2)]
                    spec["inserts"].append((pos, anchor.replace("\\n", "\n"), text))
                elif key == "closure":
                    parts = [x.strip() for x in val.split(" | ")]
                    spec.setdefault("closures", []).append({"n": int(parts[0]) if parts[0].isdigit() else parts[0].strip("/"), "params": parts[1], "ret": parts[2],
                                                            "ensures": parts[3] if len(parts) > 3 else "-",
                                                            "let": parts[4] if len(parts) > 4 else "-",
                                                            "requires": parts[5] if len(parts) > 5 else "-"})
                elif key == "cut-before-re":
                    rx, repl = [x.strip() for x in val.split(" | ")]
                    spec["cut"] = (rx, repl)
                elif key == "f64cmp":
                    spec["f64cmp"] = True
                elif key == "epilogue":
                    spec["epilogue"] = spec.get("epilogue", "") + " " + val
                elif key == "prologue":
                    spec["prologue"] = spec.get("prologue", "") + " " + val
                elif key == "sig":
                    frm, to = [x.strip() for x in val.split(" | ")]
                    spec["sigs"].append((frm, to))
                elif key == "attr":
                    spec["attrs"].append(val)
                elif key == "as":
                    spec["as"] = val
                elif key == "novis":
                    spec["novis"] = True
                elif key == "tail-wrap":
                    spec["tail_wrap"] = val
                else:
                    raise SystemExit(f"{path}:{i+1}: unknown directive `{key}`")
                i += 1
            i += 1
            spec.pop("_last", None)
            spec.pop("_lastkey", None)
            blocks.append(("fn", spec))
            cur_start = i + 1
            continue
        cur.append(ln)
        i += 1
    if cur:
        blocks.append(("text", cur, cur_start))
    return blocks


def split_signature(sig: str):
    """-> (head, ret or None, where or '')"""
    mask = mask_rust(sig)
    depth = 0
    arrow = None
    where = None
    k = 0
    while k < len(mask):
        ch = mask[k]
        if ch in "([<":
            # '<' only counts as bracket in generic position; '->' handled below
            if ch == "<" or ch in "([":
                depth += 1
        elif ch in ")]":
            depth -= 1
        elif ch == ">":
            if k > 0 and mask[k - 1] == "-":
                if depth == 0 and arrow is None:
                    arrow = k - 1
            else:
                depth -= 1
        elif depth == 0 and mask.startswith("where", k) and (k == 0 or not mask[k - 1].isalnum()) and not mask[k + 5:k + 6].isalnum():
            where = k
            break
        k += 1
    end = where if where is not None else len(sig)
    wh = sig[where:].strip() if where is not None else ""
    if arrow is None:
        return sig[:end].rstrip(), None, wh
    return sig[:arrow].rstrip(), sig[arrow + 2:end].strip(), wh


def generate(unit, template_path, canary=False, extra_fns=(), drop_hints=()):
    srcs = {}

    def get_src(rel):   # per-call cache: generate() may run concurrently for several units
        if rel not in srcs:
            srcs[rel] = Source(rel)
        return srcs[rel]

    g = Gen(unit, template_path)
    blocks = parse_template(template_path)
    if extra_fns:
        # auto-included helpers: functions of /repo that an extracted body calls but the template does not list
        # (typically introduced by a change). They get NO contract: their bodies are checked for safety and their
        # results are unconstrained, so a caller's postcondition can only still hold if it does not depend on them.
        extra = []
        for ef in extra_fns:
            (rel, header, name, props), opaque = ef[:4], (len(ef) > 4 and ef[4])
            extra.append(("text", ["", f"// auto-included helper `{name}` from {rel} (called by an extracted body; no contract"
                                   + ("; body OUTSIDE the Verus subset: kept opaque, result arbitrary)" if opaque else ")")] + ([header + " {"] if header != "-" else []), 0))
            extra.append(("fn", {"file": rel, "impl": header, "name": name, "props": list(props), "ret": None, "clauses": [], "loops": [],
                                 "rewrites": [], "inserts": [], "sigs": [], "attrs": ["#[verifier::external_body]"] if opaque else [], "tline": 0, "as": None, "novis": False,
                                 "external_body": bool(opaque), "arm": None, "auto": True}))
            extra.append(("text", ["}"] if header != "-" else [""], 0))
        # place before the closing `} // verus!` of the template
        for bi in range(len(blocks) - 1, -1, -1):
            if blocks[bi][0] == "text":
                lines = blocks[bi][1]
                idx = max((k for k, ln in enumerate(lines) if ln.strip().startswith("} // verus!")), default=None)
                if idx is not None:
                    head, tail = lines[:idx], lines[idx:]
                    blocks[bi:bi + 1] = [("text", head, blocks[bi][2])] + extra + [("text", tail, blocks[bi][2] + idx)]
                    break
    trel = os.path.relpath(template_path, os.path.dirname(os.path.dirname(template_path)))
    header_done = False
    for b in blocks:
        if b[0] == "text":
            _, lines, start = b
            for k, ln in enumerate(lines):
                if ln.strip().startswith("//@fields "):
                    # guard for a hand-declared PROJECTION of a real struct (the template declares only the fields the extracted code
                    # touches): `//@fields file | struct Name | field: Type; field: *` - the real struct must have each field with exactly
                    # that type (`*` = any type: the template keeps it abstract). A mismatch means the projection no longer describes
                    # the code that runs => anchor lost (undecided).
                    segs = [x.strip() for x in ln.strip()[len("//@fields "):].split(" | ")]
                    fsrc = get_src(segs[0])
                    fa, fe = fsrc.find_item("struct", segs[1].split()[-1])
                    ftext = re.sub(r"\s+", "", re.sub(r"//[^\n]*", "", strip_attrs_and_docs(fsrc.text[fa:fe])))
                    for fld in segs[2].split(";"):
                        if not fld.strip():
                            continue
                        fname, ftype = [x.strip() for x in fld.split(":", 1)]
                        mfl = re.search(r"[{,](?:pub(?:\([^)]*\))?)?" + re.escape(fname) + r":(.*?)(?=,(?:pub(?:\([^)]*\))?)?\w+:|,?}$)", ftext)
                        if not mfl:
                            raise AnchorLost(f"{segs[0]}: struct {segs[1]} has no field `{fname}` (declared projection in {trel} is stale)")
                        if ftype != "*" and re.sub(r"\s+", "", ftype) != mfl.group(1):
                            raise AnchorLost(f"{segs[0]}: field `{fname}` of {segs[1]} has type `{mfl.group(1)}`, the projection in {trel} declares `{ftype}`")
                    g.rewrites.append({"rule": "R0", "where": f"{segs[0]}::{segs[1]}", "before": "struct declared as a projection in the template", "after": "fields checked against the real struct: " + segs[2]})
                g.lines.append(ln)
                g.linemap.append({"kind": "template", "file": trel, "line": start + k})
                if ln.strip() == "verus! {" and not header_done:
                    # R12 (every unit): primitive f64 arithmetic (`a - b`, `a * b` on f64 values) carries a precondition in vstd that
                    # nothing can prove; in Rust it never panics. Without this, a body that STARTS doing float arithmetic would fail a
                    # "safety" obligation (a false C08 alarm). ASSUMED: f64 + - * / are total; their results stay uninterpreted.
                    header_done = True
                    for hl in F64_TOTAL:
                        g.lines.append(hl)
                        g.linemap.append({"kind": "template", "file": "vx/extract.py (R12: f64 arithmetic is total)", "line": 0})
                    g.rewrites.append({"rule": "R12", "where": unit, "before": "(every unit)", "after": "axioms: f64 + - * / never panic (vstd gives them an unprovable precondition); results uninterpreted"})
        elif b[0] == "item":
            spec = b[1]
            src = get_src(spec["file"])
            a, e = src.find_item(spec["kind"], spec["name"])
            text = strip_attrs_and_docs(src.text[a:e])
            # R0: restricted visibility has no run-time meaning; Verus wants `pub` for items named in pub specs
            text = re.sub(r"^pub\s*\([^)]*\)", "pub", text, count=1)
            if spec["kind"] in ("struct", "enum", "type") and not text.startswith("pub"):
                text = "pub " + text
            if spec.get("derive"):
                # R0 refinement: a derive the template asks for is kept IF the source item really derives it
                pre = src.text[max(0, a - 400):a]
                md = re.findall(r"#\[derive\(([^)]*)\)\]", pre[pre.rfind("}") + 1:] if "}" in pre else pre)
                have = {d.strip() for grp in md for d in grp.split(",")}
                keep = [d for d in spec["derive"] if d in have]
                if keep:
                    text = "#[derive(" + ", ".join(keep) + ")] " + text
            g.rewrites.append({"rule": "R0", "where": f"{spec['file']}:{line_of(src.text, a)}", "before": "attributes/doc comments", "after": "(dropped)"})
            for rule, frm, to in spec.get("rewrites", []):
                text = apply_rewrite(text, rule, frm, to, True, g.rewrites, f"{spec['file']}:{line_of(src.text, a)}::{spec['name']}")
            g.emit_mapped(text, spec["file"], line_of(src.text, a))
        elif b[0] == "lemma":
            spec = b[1]
            start = len(g.lines) + 1
            text = "\n".join(spec["text"])
            if canary:
                # `assert(false);` as the first statement of the lemma body: provable only if the lemma's
                # requires (plus the axioms in scope) are contradictory. Contracts seen by callers are unchanged.
                tm = mask_rust(text)
                depth = 0
                body_open = None
                for k, ch in enumerate(tm):
                    if ch in "([{":
                        if ch == "{" and depth == 0:
                            body_open = k
                        depth += 1
                    elif ch in ")]}":
                        depth -= 1
                if body_open is not None:
                    rest = text[body_open + 1:]
                    mm = re.match(r"\s*broadcast use [^;]*;", rest)
                    at = body_open + 1 + (mm.end() if mm else 0)
                    text = text[:at] + " assert(false);" + text[at:]
            for k, ln in enumerate(text.split("\n")):
                g.lines.append(ln)
                g.linemap.append({"kind": "lemma", "file": trel, "line": spec["tline"] + 1 + k, "name": spec["name"]})
            g.lemmas.append({"name": spec["name"], "props": spec["props"], "gen_start": start, "gen_end": len(g.lines),
                             "hash": hashlib.sha256("\n".join(spec["text"]).encode()).hexdigest()[:16]})
        else:
            spec = b[1]
            src = get_src(spec["file"])
            if spec["impl"] == "-":
                ranges = [(0, len(src.mask))]
            else:
                ranges = src.find_impl(spec["impl"])
            s0, bo, bc = src.find_fn(spec["name"], ranges)
            sig = src.text[s0:bo].rstrip()
            body = src.text[bo:bc + 1]
            if spec.get("arm"):
                # arm-level extraction: the block of ONE match arm of the function, wrapped in a synthesized
                # signature over the arm's bound variables (the signature is template text; the block is /repo text)
                arm_rx, arm_sig = spec["arm"]
                fmask = src.mask[bo:bc + 1]
                if spec.get("block") == "guard":
                    gh = [h for h in re.finditer(arm_rx, fmask) if re.match(r"\s*if\b", fmask[h.end():])]
                    if len(gh) != 1:
                        raise AnchorLost(f"{spec['file']}::{spec['name']}: guarded arm `{arm_rx}` matched {len(gh)}x")
                    g0 = gh[0].end() + re.match(r"\s*if\b", fmask[gh[0].end():]).end()
                    depth_, k_ = 0, g0
                    while k_ < len(fmask) - 1:
                        ch_ = fmask[k_]
                        if ch_ in "([{":
                            depth_ += 1
                        elif ch_ in ")]}":
                            depth_ -= 1
                        elif depth_ <= 0 and fmask.startswith("=>", k_):
                            break
                        k_ += 1
                    s0 = bo + g0
                    body = "{ " + src.text[bo + g0:bo + k_].strip() + " }"
                    bo, bc = bo + g0, bo + k_
                    sig = arm_sig
                    arm_rx = None
                elif spec.get("block"):
                    # block-level extraction: the `{...}` block that follows the (unique) match of the regex inside the
                    # function - e.g. the body of `if !inputs.is_empty()` - wrapped in a synthesized signature
                    kth_ = None
                    mk_ = re.search(r"#(\d+)$", arm_rx)
                    if mk_:
                        arm_rx, kth_ = arm_rx[:mk_.start()], int(mk_.group(1))      # `regex#k`: the k-th match
                    bh = list(re.finditer(arm_rx, fmask))
                    if kth_ is not None:
                        if kth_ >= len(bh):
                            raise AnchorLost(f"{spec['file']}::{spec['name']}: block anchor `{arm_rx}` matched {len(bh)}x (wanted #{kth_})")
                        bh = [bh[kth_]]
                    if len(bh) != 1:
                        raise AnchorLost(f"{spec['file']}::{spec['name']}: block anchor `{arm_rx}` matched {len(bh)}x")
                    b0 = fmask.find("{", bh[0].end())
                    if b0 < 0:
                        raise AnchorLost(f"{spec['file']}::{spec['name']}: no block after `{arm_rx}`")
                    b1 = match_brace(fmask, b0)
                    s0 = bo + b0
                    if spec.get("block") == "stmt":
                        st0 = bh[0].start()
                        body = "{ " + src.text[bo + st0:bo + b1 + 1] + " }"
                        s0 = bo + st0
                        bo, bc = bo + st0, bo + b1
                    else:
                        bo, bc = bo + b0, bo + b1
                        body = src.text[bo:bc + 1]
                    sig = arm_sig
                    arm_rx = None
                if arm_rx is not None:
                    hits = []
                    amask = fmask
                    if arm_rx.startswith("(?#chars)"):
                        # arm patterns that ARE character literals (`'.' =>`): match against a mask in which char literals keep their text
                        ftext_ = src.text[bo:bc + 1]
                        am_ = list(fmask)
                        for cm_ in re.finditer(r"'(?:\\(?:u\{[0-9a-fA-F]+\}|x[0-9a-fA-F]{2}|.)|[^'\\])'", ftext_):
                            if fmask[cm_.start()] == "'" and fmask[cm_.end() - 1] == "'":
                                am_[cm_.start():cm_.end()] = list(ftext_[cm_.start():cm_.end()])
                        amask = "".join(am_)
                    for h in re.finditer(arm_rx, amask):
                        # keep only real arm patterns: after the pattern (and its `{...}` if the regex ends in `{`) comes `=>`
                        e = h.end()
                        ob = fmask.find("{", h.start(), h.end())
                        if ob >= 0:
                            cb = match_brace(fmask, ob)
                            if cb >= h.end() - 1:
                                e = cb + 1      # the regex stops inside the pattern's `{...}`: the pattern ends at its closing brace
                        rest = fmask[e:e + 200].lstrip()
                        if rest.startswith("=>") or rest.startswith("|") or re.match(r"if\b", rest):
                            hits.append(h)
                    if len(hits) != 1:
                        raise AnchorLost(f"{spec['file']}::{spec['name']}: arm pattern `{arm_rx}` matched {len(hits)}x")
                    if hits[0].groups():
                        # names bound by the arm pattern (captured by the regex) are substituted for $1, $2.. in the
                        # synthesized signature and in every annotation of the block: a renamed binding keeps the anchor
                        def _subst(t, _g=hits[0].groups()):
                            for gi, gv in enumerate(_g, 1):
                                t = t.replace(f"${gi}", gv or "")
                            return t
                        arm_sig = _subst(arm_sig)
                        for c in spec["clauses"]:
                            c["text"] = _subst(c["text"])
                        for c in spec["loops"]:
                            c["text"] = _subst(c["text"])
                        spec["inserts"] = [(a, b, _subst(c)) for (a, b, c) in spec["inserts"]]
                        for kk in ("prologue", "epilogue"):
                            if spec.get(kk):
                                spec[kk] = _subst(spec[kk])
                    k = hits[0].end()
                    ob = fmask.find("{", hits[0].start(), hits[0].end())
                    if ob >= 0 and match_brace(fmask, ob) >= k - 1:
                        k = match_brace(fmask, ob) + 1
                    depth = 0
                    arrow = None
                    while k < len(fmask) - 1:
                        ch = fmask[k]
                        if ch in "([{":
                            depth += 1
                        elif ch in ")]}":
                            depth -= 1
                        elif depth <= 0 and fmask.startswith("=>", k):
                            arrow = k
                            break
                        k += 1
                    if arrow is None:
                        raise AnchorLost(f"{spec['file']}::{spec['name']}: no `=>` after arm pattern")
                    b0 = arrow + 2
                    while fmask[b0] in " \n\t":
                        b0 += 1
                    if fmask[b0] != "{":
                        raise AnchorLost(f"{spec['file']}::{spec['name']}: arm body is not a block")
                    b1 = match_brace(fmask, b0)
                    s0 = bo + b0
                    bo, bc = bo + b0, bo + b1
                    sig = arm_sig
                    body = src.text[bo:bc + 1]
            where = f"{spec['file']}:{line_of(src.text, s0)}::{spec['name']}"
            _bm0 = mask_rust(body)
            loopform = [re.match(r"\w+", _bm0[k0:]).group(0) for k0 in find_loops(_bm0)]     # loop keywords of the REAL text, in order
            annotated = bool(spec["inserts"] or spec.get("closures") or any(c["kind"] != "abstract" for c in spec["loops"])
                             or any(any(t in r[0] for t in ("R10", "R11")) for r in spec.get("rewrites_re", [])))
            if (spec["as"] or spec["name"]) in drop_hints:
                # the proof annotations of this function (R10/R11: inserted hints, loop invariants, closure contracts) do not
                # COMPILE against the current body (they name a local that is gone): they are dropped, the function is verified
                # without them and every failing obligation of it reads `hint-lost` (undecided), never VIOLATION
                spec["inserts"] = []
                spec["closures"] = []
                spec["loops"] = [c for c in spec["loops"] if c["kind"] == "abstract"]
                spec["rewrites_re"] = [r for r in spec.get("rewrites_re", []) if not any(t in r[0] for t in ("R10", "R11"))]
                g.rewrites.append({"rule": "R10", "where": where, "before": "every proof annotation of the function", "after": "(dropped: the annotations do not compile against the current body)", "missed": True})
            body_hash = hashlib.sha256((sig + body).encode()).hexdigest()[:16]
            if spec.get("auto"):
                # R20 (auto-included helpers only): module qualifiers of paths are dropped (`crate::typechecker::type_scheme::TypeScheme`,
                # `typed_ast::Expression` -> `TypeScheme`, `Expression`): a unit is ONE flat file that declares the types it knows by
                # their bare names. A name the unit does not declare still fails to compile (=> undecided).
                def _flat(t):
                    m_ = mask_rust(t)
                    out_, last_ = [], 0
                    for mm_ in re.finditer(r"\b(?:crate::)?(?:[a-z_][a-z0-9_]*::)+(?=[A-Z])", m_):
                        if re.match(r"(?:std|core|alloc)::", mm_.group(0)):
                            continue        # paths into the standard library stay as they are
                        out_.append(t[last_:mm_.start()]); last_ = mm_.end()
                    out_.append(t[last_:])
                    return "".join(out_)
                nsig, nbody = _flat(sig), _flat(body)
                if (nsig, nbody) != (sig, body):
                    g.rewrites.append({"rule": "R20", "where": where, "before": "module-qualified paths", "after": "bare names"})
                    sig, body = nsig, nbody
            if spec.get("external_body"):
                body = "{ unimplemented!() }"
            # --- signature
            for frm, to in spec["sigs"]:
                if frm not in sig:
                    raise AnchorLost(f"{where}: signature anchor not found: `{frm}`")
                g.rewrites.append({"rule": "R3/sig", "where": where, "before": frm, "after": to})
                sig = sig.replace(frm, to)
            if spec["novis"]:
                sig = re.sub(r"^pub(\s*\([^)]*\))?\s+", "", sig)
            if spec["as"]:
                sig = re.sub(r"\bfn\s+" + re.escape(spec["name"]) + r"\b", "fn " + spec["as"], sig, count=1)
            head, ret, wh = split_signature(sig)
            sig_lines = sig.count("\n")
            retname = spec["ret"] or "r"
            newsig = head.replace("\n", " ")
            newsig = re.sub(r"\s+", " ", newsig)
            if ret is not None:
                newsig += f" -> ({retname}: {re.sub(chr(10), ' ', ret)})"
            if wh:
                newsig += " " + wh.replace("\n", " ")
            # --- body rewrites
            for rule, frm, to, optional in spec.get("prewrites_re", []):
                new_body, cnt = re.subn(frm, to, body)
                if cnt == 0 and not optional:
                    raise AnchorLost(f"{where}: prewrite-re {rule} pattern not found: `{frm}`")
                if cnt:
                    g.rewrites.append({"rule": rule, "where": where, "before": "/" + frm + "/", "after": to, "count": cnt})
                    body = new_body
            body = rule_R4(body, g.rewrites, where)
            if re.search(r"\bcontinue\b", mask_rust(body)):
                body = rule_R15(body, g.rewrites, where)     # before R8: a guard-continue whose guard is a let-chain becomes a chain WITH else
            if "&&" in body and re.search(r"\bif\b[^;]*?\blet\b", mask_rust(body), re.S):
                body = rule_R8(body, g.rewrites, where)
            if re.search(r"\bmatch\b", mask_rust(body)) and re.search(r"\bif\b[^{};]*=>", mask_rust(body)):
                body = rule_R19(body, g.rewrites, where)
            if re.search(r"\(\s*ref\s+\w+\s*\)\s*=", mask_rust(body)):
                body = rule_R18(body, g.rewrites, where)
            if re.search(r"\b(?:Some|Ok|Err)\(\s*&\s*\w+\s*\)\s*=>", mask_rust(body)):
                body = rule_R17(body, g.rewrites, where)
            mm_ = re.findall(r"(?<=[(,])\s*mut\s+(\w+)\s*:", newsig)
            for pn in mm_:
                if pn == "self":
                    continue
                # R14 (by-value parameters): `fn f(mut x: T)` -> `fn f(x: T) { let mut x = x; .. }` (a `mut` parameter IS this shadowing)
                newsig = re.sub(r"(?<=[(,])(\s*)mut\s+" + pn + r"\s*:", r"\1" + pn + ":", newsig, count=1)
                body = "{ let mut " + pn + " = " + pn + ";" + body[1:]
                g.rewrites.append({"rule": "R14", "where": where, "before": f"mut {pn}: ..", "after": f"{pn}: .. + `let mut {pn} = {pn};`"})
            if re.search(r"\(\s*mut\s+self\b", newsig):
                # R14: `fn f(mut self, ..) { B }` -> `fn f(self, ..) { let mut self_ = self; B[self := self_] }` (alpha-renaming
                # of a by-value binding; Verus has no `mut self`)
                newsig = re.sub(r"\(\s*mut\s+self\b", "(self", newsig, count=1)
                bm = mask_rust(body)
                out, last = [], 0
                for mm in re.finditer(r"\bself\b", bm):
                    out.append(body[last:mm.start()]); out.append("self_"); last = mm.end()
                out.append(body[last:])
                body = "".join(out)
                body = "{ let mut self_ = self;" + body[1:]
                g.rewrites.append({"rule": "R14", "where": where, "before": "mut self", "after": "self + `let mut self_ = self;`, body self -> self_"})
            if spec.get("cut"):
                # R16 tail abstraction: everything from the first top-level statement matching the regex to the end of the
                # function is replaced by `return <havoc>;` - any result is allowed on those paths (over-approximation for
                # partial correctness; DROPPED: what the tail computes, its termination and panic-freedom). Only for
                # functions without `&mut` parameters (nothing else the tail could change).
                rx, repl = spec["cut"]
                if re.search(r"&\s*mut\b", newsig):
                    raise AnchorLost(f"{where}: R16 not applicable to a function with &mut parameters")
                bm = mask_rust(body)
                hit = None
                for mm in re.finditer(rx, bm):
                    depth = bm[:mm.start()].count("{") - bm[:mm.start()].count("}")
                    if depth == 1:
                        hit = mm
                        break
                if hit is None:
                    # soft: without the anchor nothing is cut and the whole body is verified as it is (a restructured function may
                    # well be inside the subset; if not, the front end says so)
                    g.rewrites.append({"rule": "R16", "where": where, "before": f"/{rx}/", "after": "(anchor not found: nothing cut)", "count": 0})
                else:
                    g.rewrites.append({"rule": "R16", "where": where, "before": f"tail from /{rx}/ ({line_of(body, hit.start())} lines into the body)", "after": f"return {repl};"})
                    body = body[:hit.start()] + f"return {repl}; }}"
            for rule, frm, to, allocc in spec["rewrites"]:
                body = apply_rewrite(body, rule, frm, to, allocc, g.rewrites, where)
            if spec.get("f64cmp"):
                body = rewrite_f64_comparisons(body, g.rewrites, where)
            for rule, frm, to, optional in spec.get("rewrites_re", []):
                new_body, cnt = re.subn(frm, to, body)
                if cnt == 0 and optional:
                    if any(t in rule for t in ("R10", "R11")):
                        g.rewrites.append({"rule": rule, "where": where, "before": "/" + frm + "/", "after": to, "count": 0, "missed": True})
                    continue
                if cnt == 0:
                    raise AnchorLost(f"{where}: rewrite-re {rule} pattern not found: `{frm}`")
                g.rewrites.append({"rule": rule, "where": where, "before": "/" + frm + "/", "after": to, "count": cnt})
                body = new_body
            if re.search(r"\bfor\s*\(", mask_rust(body)):
                body = rule_R3f(body, g.rewrites, where)
            if spec.get("closures"):
                # R3+R10: annotate the n-th closure (textual order, before other rewrites shift nothing: applied last-first)
                cl = find_closures(mask_rust(body))
                for c in spec["closures"]:
                    if isinstance(c["n"], str):
                        # selected by a regex on the closure's parameter list (e.g. /^q$/): robust against closures
                        # added or removed before it; no unique match = annotation skipped (soft)
                        hits_c = [i for i, (a, pe, bs, be) in enumerate(cl) if re.search(c["n"], body[a + 1:pe - 1].strip())]
                        c["_rx"] = c["n"]
                        c["n"] = hits_c[0] if len(hits_c) == 1 else 10 ** 6
                for c in sorted(spec["closures"], key=lambda c: -c["n"]):
                    if c["n"] >= len(cl):
                        # soft: an annotation that cannot be placed is skipped (the closure then has no ensures)
                        g.rewrites.append({"rule": "R3+R10", "where": where, "before": f"closure #{c['n']}", "after": "(not found)", "missed": True})
                        continue
                    a, pe, bs, be = cl[c["n"]]
                    expr = body[bs:be]
                    new = f"|{c['params']}| -> (rr: {c['ret']})"
                    if c.get("requires", "-") != "-":
                        new += f" requires {c['requires']}"
                    if c["ensures"] != "-":
                        new += f" ensures {c['ensures']}"
                    new += " { " + (c["let"] + " " if c["let"] != "-" else "") + expr + " }"
                    g.rewrites.append({"rule": "R3+R10", "where": where, "before": body[a:be], "after": new})
                    body = body[:a] + new + body[be:]
            if spec.get("tail_wrap"):
                # R21: the extracted arm is the VALUE of a `match` that its function wraps (`Ok(match ast { .. => { ..; TREE } })`): the tail
                # expression of the block becomes `Ok(TREE)` so that the block is a function body of the function's own result type
                bm_ = mask_rust(body)
                depth_, bounds_ = 0, [1]
                for k_, ch_ in enumerate(bm_):
                    if ch_ in "([{":
                        depth_ += 1
                    elif ch_ in ")]}":
                        depth_ -= 1
                        if ch_ == "}" and depth_ == 1:
                            rest_ = bm_[k_ + 1:].lstrip()
                            if not (rest_.startswith("else") or rest_.startswith(".") or rest_.startswith("?")):
                                bounds_.append(k_ + 1)
                    elif ch_ == ";" and depth_ == 1:
                        bounds_.append(k_ + 1)
                tail_at = None
                for b_ in reversed(bounds_):
                    if bm_[b_:len(bm_) - 1].strip():
                        tail_at = b_
                        break
                if tail_at is None:
                    raise AnchorLost(f"{where}: no tail expression to wrap (R21)")
                tail_txt = body[tail_at:len(body) - 1]
                body = body[:tail_at] + " " + spec["tail_wrap"] + "(" + tail_txt.strip() + ")\n}"
                g.rewrites.append({"rule": "R21", "where": where, "before": "TAIL", "after": spec["tail_wrap"] + "(TAIL)"})
            for pos, anchor, text in spec["inserts"]:
                if pos == "loop-start":
                    sel = int(anchor) if anchor.isdigit() else anchor.strip("/")
                    ln = resolve_loop(sel, body, where)
                    bm = mask_rust(body)
                    spans = loop_spans(bm)
                    if ln is None or ln >= len(spans):
                        g.rewrites.append({"rule": "R10", "where": where, "before": f"loop-start {anchor}", "after": text[:80], "missed": True})
                        continue
                    _, b_open, b_close = spans[ln]
                    body = body[:b_open + 1] + " " + text + " " + body[b_open + 1:]
                    g.rewrites.append({"rule": "R10", "where": where, "before": f"loop-start {anchor}", "after": text[:80]})
                    continue
                if pos == "loop-end":
                    # anchor = loop selector (ordinal or /header regex/): the text goes to the END of that loop's body
                    sel = int(anchor) if anchor.isdigit() else anchor.strip("/")
                    ln = resolve_loop(sel, body, where)
                    bm = mask_rust(body)
                    spans = loop_spans(bm)
                    if ln is None or ln >= len(spans):
                        g.rewrites.append({"rule": "R10", "where": where, "before": f"loop-end {anchor}", "after": text[:80], "missed": True})
                        continue
                    _, b_open, b_close = spans[ln]
                    k_ = b_close - 1
                    while k_ > b_open and bm[k_] in " \n\t":
                        k_ -= 1
                    sep = "" if bm[k_] in ";{}" else ";"
                    body = body[:k_ + 1] + sep + " " + text + " " + body[k_ + 1:]
                    g.rewrites.append({"rule": "R10", "where": where, "before": f"loop-end {anchor}", "after": text[:80]})
                    continue
                if pos in ("after-stmt", "before-stmt"):
                    # anchor = `<regex>[#k]`: the k-th statement whose text matches the regex from its first token on
                    # (e.g. `let\s+rhs\s*=`): independent of WHICH function the statement calls
                    rx, _, kth = anchor.rpartition("#") if re.search(r"#\d+$", anchor) else (anchor, "", "0")
                    bm = mask_rust(body)
                    hits = [m for m in re.finditer(rx, bm)]
                    kth = int(kth or 0)
                    if kth >= len(hits):
                        g.rewrites.append({"rule": "R10", "where": where, "before": anchor, "after": f"{pos}: {text}", "missed": True, "count": len(hits)})
                        continue
                    st = hits[kth].start()
                    # names captured by the statement regex are available as $1, $2.. in the inserted text (a renamed local keeps the hint)
                    for gi, gv in enumerate(hits[kth].groups(), 1):
                        text = text.replace(f"${gi}", body[hits[kth].start(gi):hits[kth].end(gi)] if gv is not None else "")
                    if pos == "before-stmt":
                        body = body[:st] + " " + text + " " + body[st:]
                    else:
                        depth, k2 = 0, st
                        while k2 < len(bm):
                            ch = bm[k2]
                            if ch in "([{":
                                depth += 1
                            elif ch in ")]}":
                                depth -= 1
                                if depth < 0:
                                    break
                            elif ch == ";" and depth == 0:
                                break
                            elif ch == "," and depth == 0:
                                k2 = len(bm)      # a match-arm expression (`P => e,`), not a statement: no place for a hint
                                break
                            k2 += 1
                        if k2 < len(bm) and bm[k2] == "}":
                            # the statement is the (unit-valued) tail expression of its block, e.g. `else { expr = E }`: it becomes a
                            # statement (`;`) followed by the proof text - a value-producing tail would no longer compile (=> undecided)
                            k3 = k2 - 1
                            while k3 > st and bm[k3] in " \n\t":
                                k3 -= 1
                            body = body[:k3 + 1] + "; " + text + " " + body[k3 + 1:]
                            g.rewrites.append({"rule": "R10", "where": where, "before": anchor, "after": f"{pos}: {text}"})
                            continue
                        if k2 >= len(bm) or bm[k2] != ";":
                            g.rewrites.append({"rule": "R10", "where": where, "before": anchor, "after": f"{pos}: {text}", "missed": True})
                            continue
                        body = body[:k2 + 1] + " " + text + body[k2 + 1:]
                    g.rewrites.append({"rule": "R10", "where": where, "before": anchor, "after": f"{pos}: {text}"})
                    continue
                if pos in ("after-call", "before-call"):
                    # anchor = `<callee>#<k>`: after the statement containing the k-th call of <callee> (robust against
                    # changes of the arguments and of formatting)
                    callee, _, kth = anchor.rpartition("#") if "#" in anchor else (anchor, "", "")
                    scope = None
                    if "@" in callee:
                        callee, scope = callee.split("@", 1)
                    bm = mask_rust(body)
                    crx = callee[1:] if callee.startswith("~") else re.escape(callee)    # `~` = regex for the callee name
                    calls = [m for m in re.finditer(r"\b(?:" + crx + r")\s*\(", bm)]
                    if scope is not None:
                        # `callee@top#k`: k-th call outside every loop; `callee@loop2#k` / `callee@loop/regex/#k`: k-th call
                        # inside that loop's body (robust against statements moved across loops)
                        spans = loop_spans(bm)
                        if scope == "top":
                            calls = [m for m in calls if not any(b < m.start() < c for (_, b, c) in spans)]
                        else:
                            sel = scope[len("loop"):]
                            sel = int(sel) if sel.isdigit() else sel.strip("/")
                            ln = resolve_loop(sel, body, where)
                            if ln is None or ln >= len(spans):
                                calls = []
                            else:
                                _, b, c = spans[ln]
                                calls = [m for m in calls if b < m.start() < c]
                    kth = int(kth or 0)
                    if kth >= len(calls):
                        g.rewrites.append({"rule": "R10", "where": where, "before": anchor, "after": f"{pos}: {text}", "missed": True, "count": len(calls)})
                        continue
                    if pos == "before-call":
                        # start of the statement containing the call: after the previous `;`, `{` or `}` at this point
                        st = calls[kth].start()
                        while st > 0 and bm[st - 1] not in ";{}":
                            st -= 1
                        g.rewrites.append({"rule": "R10", "where": where, "before": anchor, "after": f"{pos}: {text}"})
                        body = body[:st] + " " + text + " " + body[st:]
                        continue
                    close = match_brace(bm, calls[kth].end() - 1)
                    semi = bm.find(";", close)
                    if semi < 0:
                        g.rewrites.append({"rule": "R10", "where": where, "before": anchor, "after": f"{pos}: {text}", "missed": True})
                        continue
                    g.rewrites.append({"rule": "R10", "where": where, "before": anchor, "after": f"{pos}: {text}"})
                    body = body[:semi + 1] + " " + text + body[semi + 1:]
                    continue
                cnt = body.count(anchor)
                if cnt != 1:
                    # a proof hint that cannot be placed is skipped (soft anchor): without it the obligation may fail,
                    # it can never pass wrongly
                    g.rewrites.append({"rule": "R10", "where": where, "before": anchor, "after": f"{pos}: {text}", "missed": True, "count": cnt})
                    continue
                g.rewrites.append({"rule": "R10", "where": where, "before": anchor, "after": f"{pos}: {text}"})
                if pos == "before":
                    body = body.replace(anchor, text + " " + anchor)
                else:
                    body = body.replace(anchor, anchor + " " + text)
            if spec.get("prologue"):
                g.rewrites.append({"rule": "R10", "where": where, "before": "{", "after": "{ " + spec["prologue"].strip()})
                body = "{ " + spec["prologue"].strip() + body[1:]
            if spec.get("epilogue"):
                # R10: proof text placed before the closing brace of the body (only sound for bodies whose last
                # statement ends with `;` - i.e. unit-valued blocks such as match arms)
                g.rewrites.append({"rule": "R10", "where": where, "before": "}", "after": spec["epilogue"].strip() + " }"})
                bm_ = mask_rust(body)
                k_ = len(body) - 2
                while k_ > 0 and bm_[k_] in " \n\t":      # last CODE character (trailing comments are blank in the mask)
                    k_ -= 1
                inner, trailing = body[:k_ + 1], body[k_ + 1:-1]
                if inner and inner[-1] not in ";{}":
                    inner += ";"        # unit-valued tail expression of the arm block becomes a statement
                body = inner + " " + spec["epilogue"].strip() + " " + trailing.rstrip() + "\n}"
            if canary:
                # vacuity canary: `assert(false)` right after the prologue must FAIL, i.e. the function's
                # requires together with the axioms in scope must be satisfiable
                pro = ("{ " + spec["prologue"].strip()) if spec.get("prologue") else "{"
                body = pro + " assert(false);" + body[len(pro):]
            # --- loop contracts
            if spec["loops"]:
                bmask = mask_rust(body)
                loops = find_loops(bmask)
                byloop = {}
                for c in spec["loops"]:
                    n = resolve_loop(c["loop"], body, where)
                    c["_n"] = n
                    if n is None:
                        # a loop contract selected by header regex that cannot be placed: soft (the loop then has no
                        # invariant and the function fails as `hint-lost`, never as a violation)
                        g.rewrites.append({"rule": "R10", "where": where, "before": f"loop /{c['loop']}/", "after": c["text"][:80], "missed": True})
                        continue
                    byloop.setdefault(n, []).append(c)
                # insert from the last loop to the first so offsets stay valid
                for n in sorted(byloop, reverse=True):
                    if n >= len(loops):
                        # the loop the contract was written for is gone (e.g. replaced by a std call): nothing to annotate;
                        # soft, like every proof annotation (a failing function then reads `hint-lost`, never VIOLATION)
                        g.rewrites.append({"rule": "R10", "where": where, "before": f"loop #{n}", "after": "(not found)", "missed": True})
                        continue
                    k = loops[n]
                    depth = 0
                    while k < len(bmask):
                        ch = bmask[k]
                        if ch in "([":
                            depth += 1
                        elif ch in ")]":
                            depth -= 1
                        elif ch == "{" and depth == 0:
                            break
                        k += 1
                    absn = [c["text"] for c in byloop[n] if c["kind"] == "abstract"]
                    if absn:
                        # R13: the loop is replaced by a havoc of every mutable binding it mentions (over-approximation of
                        # its effect for partial correctness; DROPPED: termination and panic-freedom of the loop)
                        kw = loops[n]
                        close = match_brace(bmask, k)
                        lbody = bmask[k:close + 1]
                        if re.search(r"\breturn\b|\?|\bbreak\s+'|\bcontinue\s+'", lbody):
                            raise AnchorLost(f"{where}: loop #{n} has an early exit (return / ? / labelled break): R13 not applicable")
                        muts = set(re.findall(r"(?<![&\w])mut\s+(\w+)", bmask[:kw] + " " + newsig))
                        if re.search(r"&\s*mut\s+self\b", newsig):
                            muts.add("self")
                        muts.discard("self_") if False else None
                        repl = " ".join(absn)
                        for v in sorted(muts):
                            if re.search(r"\b" + re.escape(v) + r"\b", bmask[kw:close + 1]) and not re.search(r"\b" + re.escape(v) + r"\s*=[^=]", repl):
                                raise AnchorLost(f"{where}: loop #{n} mentions mutable `{v}` which the R13 replacement does not havoc")
                        g.rewrites.append({"rule": "R13", "where": where, "before": body[kw:close + 1][:200], "after": repl})
                        body = body[:kw] + repl + " " + body[close + 1:]
                        bmask = bmask[:kw] + " " * (len(repl) + 1) + bmask[close + 1:]
                        continue
                    itn = [c["text"] for c in byloop[n] if c["kind"] == "iter"]
                    if itn:
                        # `for x in EXPR` -> `for x in <name>: EXPR` (names Verus' ghost iterator; annotation only)
                        mm = re.compile(r"\bin\s+").search(bmask, loops[n])
                        if mm and mm.start() < k:
                            body = body[:mm.end()] + itn[0] + ": " + body[mm.end():]
                            bmask = bmask[:mm.end()] + " " * (len(itn[0]) + 2) + bmask[mm.end():]
                            k += len(itn[0]) + 2
                    inv = [c["text"] for c in byloop[n] if c["kind"] == "invariant"]
                    dec = [c["text"] for c in byloop[n] if c["kind"] == "decreases"]
                    ieb = [c["text"] for c in byloop[n] if c["kind"] == "invariant_except_break"]
                    lens = [c["text"] for c in byloop[n] if c["kind"] == "ensures"]
                    ins = ""
                    if ieb:
                        ins += " invariant_except_break " + ", ".join(ieb) + ","
                    if inv:
                        ins += " invariant " + ", ".join(inv) + ","
                    if lens:
                        ins += " ensures " + ", ".join(lens) + ","
                    if dec:
                        ins += " decreases " + ", ".join(dec) + ","
                    body = body[:k] + ins + " " + body[k:]
                    bmask = bmask[:k] + " " * (len(ins) + 1) + bmask[k:]
            # --- emit
            fstart = len(g.lines) + 1
            for a in spec["attrs"]:
                g.emit(a, {"kind": "contract", "file": trel, "line": spec["tline"]})
            g.emit(newsig, {"kind": "repo", "file": spec["file"], "line": line_of(src.text, s0)})
            clause_ids = []
            counters = {}
            kinds_seen = []
            clauses = list(spec["clauses"])
            order = ["requires", "recommends", "ensures", "decreases"]
            for kind in order:
                cs = [c for c in clauses if c["kind"] == kind]
                if not cs:
                    continue
                g.emit(f"    {kind}", {"kind": "contract", "file": trel, "line": cs[0]["tline"]})
                for c in cs:
                    n = counters.get(kind, 0)
                    counters[kind] = n + 1
                    cid = f"{unit}::{spec['as'] or spec['name']}::{kind}#{n}"
                    clause_ids.append({"id": cid, "kind": kind, "text": c["text"], "gen_line": len(g.lines) + 1, "props": c.get("props")})
                    g.emit(f"        {c['text']},", {"kind": "clause", "file": trel, "line": c["tline"], "id": cid})
            g.emit_mapped(body, spec["file"], line_of(src.text, bo))
            for c in spec["loops"]:
                if c["kind"] in ("iter", "abstract"):
                    continue
                n = counters.get("loop_" + c["kind"], 0)
                counters["loop_" + c["kind"]] = n + 1
                lname = c["loop"] if isinstance(c["loop"], int) else re.sub(r"\W+", "_", c["loop"]).strip("_")
                clause_ids.append({"id": f"{unit}::{spec['as'] or spec['name']}::loop{lname}_{c['kind']}#{n}", "kind": "loop_" + c["kind"], "text": c["text"], "gen_line": None})
            hint_lost = [r for r in g.rewrites if r.get("where") == where and r.get("missed")
                         and any(t in r.get("rule", "") for t in ("R10", "R11"))]
            g.functions.append({
                "hint_lost": [f"{r['rule']}: {str(r.get('before'))[:80]}" for r in hint_lost],
                "name": spec["as"] or spec["name"], "impl": spec["impl"], "file": spec["file"],
                "repo_line": line_of(src.text, s0), "repo_end_line": line_of(src.text, bc),
                "props": spec["props"], "gen_start": fstart, "gen_end": len(g.lines),
                "clauses": clause_ids, "hash": body_hash,
                "n_asserts": sum(1 for r in g.rewrites if r["rule"] == "R4" and r["where"] == where),
                "opaque": bool(spec.get("external_body")), "annotated": annotated, "loopform": loopform,
                "loop_annotated": any(c["kind"] != "abstract" for c in spec["loops"]) or any(a in ("loop-start", "loop-end") or "@loop" in b for (a, b, _c) in spec["inserts"]),
            })
    return g


def scan_trusted(text):
    """mechanical scan for assumption constructs (DESIGN 3.4)"""
    found = []
    mask = mask_rust(text)
    pats = [r"\bassume\s*\(", r"\badmit\s*\(", r"external_body", r"\bassume_specification\b", r"\buninterp\b",
            r"\baxiom\b", r"exec_allows_no_decreases_clause", r"external_type_specification", r"#\[verifier::external\]",
            r"broadcast\s+axiom"]
    lines = text.split("\n")
    mlines = mask.split("\n")
    for i, ml in enumerate(mlines):
        for p in pats:
            if re.search(p, ml):
                # describe with the next non-attribute line
                j = i
                desc = lines[i].strip()
                if desc.startswith("#["):
                    while j + 1 < len(lines) and lines[j].strip().startswith("#["):
                        j += 1
                    desc = desc + " " + lines[j].strip()
                found.append((i + 1, p, desc[:160]))
                break
    return found


if __name__ == "__main__":
    unit = sys.argv[1]
    tp = os.path.join(os.path.dirname(os.path.dirname(os.path.abspath(__file__))), "contracts", unit + ".vx")
    g = generate(unit, tp, canary="--canary" in sys.argv)
    sys.stdout.write("\n".join(g.lines))
