#!/usr/bin/env python3
"""newseed.py <label> : writes the base meta.json of seeded/<label>/ from its confirm.log (the check results are added by vx/rekeep.py)."""
import json, os, sys
ROOT = os.path.dirname(os.path.dirname(os.path.abspath(__file__)))
for label in sys.argv[1:]:
    d = os.path.join(ROOT, "seeded", label)
    confirm = [l.strip() for l in open(os.path.join(d, "confirm.log")) if l.startswith("CONFIRM")]
    mp = os.path.join(d, "meta.json")
    meta = json.load(open(mp)) if os.path.exists(mp) else {}
    meta.update({"breaks_property": label[:3],
                 "written_by": "independent sub-agent given only the property text and a scratch worktree (no access to /verif)",
                 "needs_to_manifest": "see notes.md", "confirmed_by_me": confirm})
    meta.setdefault("what_i_ran", ["vx/confirm_seed.sh <worktree>: demo with change (must fail), demo without (must pass), unedited suite with change (243 pass)"])
    json.dump(meta, open(mp, "w"), indent=1)
    print(label, confirm[-1] if confirm else "NO CONFIRM LOG")
