#!/bin/sh
# usage: try_seed.sh <patch.diff> [props...]   applies the patch to /repo, runs the quick checks, reverts. Never commits.
set -u
PATCH="$1"; shift
cd /repo || exit 2
git diff --quiet || { echo "/repo has uncommitted changes"; exit 2; }
git apply "$PATCH" || { echo "patch does not apply"; exit 2; }
cd /verif
for p in "$@"; do
  VERIF_OUT=/tmp/vx-seed-out ./check "$p" --tier quick 2>&1 | cut -c1-400
  echo "  -> $p rc=$?"
done
git -C /repo checkout -- .
git -C /repo status --short | head -3
